"""E1 driver: run the real collector (TriggerHandler -> SnapshotActionContext -> FrameCollector ->
VariableSetProcessor) on synthetic frames holding generated object graphs, read the same graphs
independently, and emit (heap, configuration, observed snapshot) cases for the Coq model."""
import types

from . import coqlit as L
from . import objgen

IMPORTS = ["Base", "Config", "Collector"]
VCLOCK = [1_700_000_000_000_000_000]


class FakePush:
    def __init__(self):
        self.snapshots = []

    def push_snapshot(self, snapshot):
        self.snapshots.append(snapshot)


def install_clock():
    import deep.processor.frame_collector as fc
    import deep.processor.context.trigger_context as tc
    import deep.api.tracepoint.eventsnapshot as es
    saved = (fc.time_ns, tc.time_ns, es.time_ns)
    fc.time_ns = tc.time_ns = es.time_ns = lambda: VCLOCK[0]
    return saved


def restore_clock(saved):
    import deep.processor.frame_collector as fc
    import deep.processor.context.trigger_context as tc
    import deep.api.tracepoint.eventsnapshot as es
    fc.time_ns, tc.time_ns, es.time_ns = saved


def mk_frame(filename, func, line, f_locals, back=None, f_globals=None):
    # (a code object as far as the agent may look at one: names of the locals, no closure variables)
    code = types.SimpleNamespace(co_filename=filename, co_name=func, co_varnames=tuple(f_locals or ()), co_freevars=(), co_cellvars=(),
                                 co_firstlineno=max(1, line - 1), co_argcount=0, co_flags=0)
    return types.SimpleNamespace(f_code=code, f_lineno=line, f_locals=f_locals, f_back=back,
                                 f_globals=f_globals if f_globals is not None else {})


def gen_case(rng, hostile_p=0.08, limits=None, max_nodes=40, n_frames=None, n_watch=None):
    g = objgen.Gen(rng, hostile_p=hostile_p, max_nodes=max_nodes)
    nf = n_frames if n_frames is not None else rng.choice([1, 1, 1, 2, 3])
    frames = []
    for i in range(nf):
        d = g.locals_dict()
        if rng.random() < 0.25:
            d["self"] = rng.choice([objgen.Plain(), objgen.Person("p", 3), None, 5, objgen.BadLen(), objgen.BadBool(), objgen.Falsy(), objgen.BadGetattribute(),
                                    objgen.Falsy(), 0, ""])
            g.pool.append(d["self"])
        frames.append(dict(file=rng.choice(["/app/src/main.py", "/app/lib/util.py", "/usr/lib/python3/os.py", "/other/x.py"]),
                           func=rng.choice(["handler", "run", "<module>", "f"]), line=rng.randrange(1, 200), locals=d))
    # the corpus that runs first: the first calls on one generator state put each special shape ONCE directly into the paused
    # frame, the next ones hand each to a watch - so that no shape is left to the luck of the draw
    seq = getattr(rng, "_corpus_calls", 0)
    rng._corpus_calls = seq + 1
    corpus_watch = None
    if hostile_p > 0 and seq < 2 * objgen.N_HOSTILE:
        v = objgen.hostile(rng, seq % objgen.N_HOSTILE)
        g.pool.append(v)
        if seq < objgen.N_HOSTILE:
            frames[0]["locals"]["hc%d" % (seq % objgen.N_HOSTILE)] = v
        else:
            corpus_watch = ("special%d()" % (seq % objgen.N_HOSTILE), v)
    g.tie_cycles()
    watches = [corpus_watch] if corpus_watch is not None and n_watch != 0 else []
    for i in range(n_watch if n_watch is not None else rng.choice([0, 0, 1, 2, 3])):
        r = rng.random()
        top = frames[0]["locals"]
        if r < 0.4 and top:
            name = rng.choice(list(top.keys()))
            watches.append((name, top[name]))                      # value already in the frame
        elif r < 0.6 and g.pool:
            cand = [x for x in g.pool if not any(x is f["locals"] for f in frames)]
            watches.append(("w%d" % i, rng.choice(cand) if cand else 1))   # some reachable or fresh object
        else:
            g.budget = max(g.budget, 6)
            watches.append(("expr%d()" % i, g.value(1)))           # first seen by the watch
    if limits is None:
        limits = dict(max_vars=rng.choice([0, 1, 2, 3, 5, 10, 30, 1000]), max_coll=rng.choice([0, 1, 2, 3, 10]),
                      max_depth=rng.choice([0, 1, 2, 3, 4, 5, 8]), max_str=rng.choice([0, 1, 5, 10, 64, 1024]))
    return dict(frames=frames, watches=watches, limits=limits, frame_type=rng.choice(["single_frame"] * 3 + ["all_frame", "all_frame", "no_frame", "no_frame", "odd_frame", "", None]),
                keep=g.pool)


def run_impl(case, n_actions=1, event="line", arg=None, extra_cfg=None, per_action=None, as_log_fields=False):
    """Drive the real handler once; returns (list of snapshots in action order, handler error log).
    as_log_fields: the case's watch expressions are handed over as the FIELDS of the tracepoint's log message instead of as watches
    (a log field is collected like a watch, under the same limits, into the same table)."""
    from deep.api.resource import Resource
    from deep.api.tracepoint.trigger import LocationAction, Trigger, LineLocation, Location
    from deep.config.config_service import ConfigService
    from deep.config.tracepoint_config import TracepointConfigService
    from deep.processor.trigger_handler import TriggerHandler
    from deep.processor.context.trigger_context import TriggerContext
    cfg = ConfigService({"APP_ROOT": "/app", "IN_APP_INCLUDE": "/other/inc", "IN_APP_EXCLUDE": "/app/lib"},
                        tracepoints=TracepointConfigService())
    cfg.resource = Resource.create()
    push = FakePush()
    handler = TriggerHandler(cfg, push)
    lim = case["limits"]
    actions = []
    for k in range(n_actions):
        # per_action[k] = dict(watches=[(expr, value)...], limits={...}): tracepoints on one event that collect differently
        pa = (per_action or [None] * n_actions)[k] or {}
        lim_k = pa.get("limits", lim)
        conf = {"watches": [w for w, _ in pa.get("watches", case["watches"])], "frame_type": case["frame_type"], "stack_type": "stack",
                "fire_count": "-1", "fire_period": "0", "log_msg": None,
                "MAX_VARIABLES": lim_k["max_vars"], "MAX_COLLECTION_SIZE": lim_k["max_coll"],
                "MAX_VAR_DEPTH": lim_k["max_depth"], "MAX_STRING_LENGTH": lim_k["max_str"], "MAX_TP_PROCESS_TIME": 10 ** 9}
        if conf["frame_type"] is None:
            del conf["frame_type"]            # the argument is absent
        if event != "line":
            conf["stage"] = "line_capture"
        if as_log_fields and conf["watches"]:
            conf["log_msg"] = " | ".join("{%s}" % w for w in conf["watches"])
            conf["watches"] = []
        conf.update(extra_cfg or {})
        actions.append(LocationAction("tp-%d" % k, None, conf, LocationAction.ActionType.Snapshot))
    top = case["frames"][0]
    import os
    trig = Trigger(LineLocation(os.path.basename(top["file"]), top["line"], Location.Position.START), actions)
    handler.new_config([trig])
    back = None
    for f in reversed(case["frames"]):
        back = mk_frame(f["file"], f["func"], f["line"], f["locals"], back)
    table = {w: v for w, v in case["watches"]}
    for pa in (per_action or []):
        table.update({w: v for w, v in (pa or {}).get("watches", [])})
    real_eval = TriggerContext.evaluate_expression
    TriggerContext.evaluate_expression = lambda self, expr: table[expr] if expr in table else real_eval(self, expr)
    raised = None
    try:
        handler.trace_call(back, "line", None)
        if event != "line":
            # the action is configured as a capture: the snapshot is deferred and completed, with the
            # returned value / raised exception, by the next return/exception event of that function
            handler.trace_call(back, event, arg)
    except BaseException as e:      # must never happen (C01), recorded by the caller
        raised = e
    finally:
        TriggerContext.evaluate_expression = real_eval
        handler._callbacks.clear()
    return push.snapshots, raised


class Hook:
    """A local whose str() - called by the collector in the middle of thread A's collection - lets another thread take
    a whole snapshot at another tracepoint, then returns.  Inert (plain text) until armed."""
    __slots__ = ("fn", "fired")

    def __init__(self):
        self.fn, self.fired = None, 0

    def __str__(self):
        fn, self.fn = self.fn, None
        if fn is not None:
            self.fired += 1
            fn()
        return "hook"


def run_pair(case_a, case_b, hook):
    """Two snapshot tracepoints with their own limits in ONE handler; thread B's hit happens, start to end, while thread A
    is inside its collection (at the moment the collector renders `hook`).  Returns ({'tp-a': snapshot, 'tp-b': snapshot}, raised)."""
    import os
    import threading
    from deep.api.resource import Resource
    from deep.api.tracepoint.trigger import LocationAction, Trigger, LineLocation, Location
    from deep.config.config_service import ConfigService
    from deep.config.tracepoint_config import TracepointConfigService
    from deep.processor.trigger_handler import TriggerHandler
    from deep.processor.context.trigger_context import TriggerContext
    cfg = ConfigService({"APP_ROOT": "/app", "IN_APP_INCLUDE": "/other/inc", "IN_APP_EXCLUDE": "/app/lib"},
                        tracepoints=TracepointConfigService())
    cfg.resource = Resource.create()
    push = FakePush()
    handler = TriggerHandler(cfg, push)
    trigs, frames = [], {}
    for tid, case, line in (("tp-a", case_a, 11), ("tp-b", case_b, 22)):
        lim = case["limits"]
        conf = {"watches": [w for w, _ in case["watches"]], "frame_type": case["frame_type"], "stack_type": "stack",
                "fire_count": "-1", "fire_period": "0", "log_msg": None,
                "MAX_VARIABLES": lim["max_vars"], "MAX_COLLECTION_SIZE": lim["max_coll"],
                "MAX_VAR_DEPTH": lim["max_depth"], "MAX_STRING_LENGTH": lim["max_str"], "MAX_TP_PROCESS_TIME": 10 ** 9}
        if conf["frame_type"] is None:
            del conf["frame_type"]
        top = case["frames"][0]
        top["line"] = line
        trigs.append(Trigger(LineLocation(os.path.basename(top["file"]), line, Location.Position.START),
                             [LocationAction(tid, None, conf, LocationAction.ActionType.Snapshot)]))
        back = None
        for f in reversed(case["frames"]):
            back = mk_frame(f["file"], f["func"], f["line"], f["locals"], back)
        frames[tid] = back
    handler.new_config(trigs)
    table = {w: v for w, v in case_a["watches"]}
    table.update({w: v for w, v in case_b["watches"]})
    real_eval = TriggerContext.evaluate_expression
    TriggerContext.evaluate_expression = lambda self, expr: table[expr] if expr in table else real_eval(self, expr)
    raised = []

    def hit(tid):
        try:
            handler.trace_call(frames[tid], "line", None)
        except BaseException as e:
            raised.append(e)

    def other():
        t = threading.Thread(target=hit, args=("tp-b",))
        t.start()
        t.join(30)
    hook.fn = other
    try:
        hit("tp-a")
        if not hook.fired:          # the budget never reached the hook: B hits afterwards
            hook.fn = None
            hit("tp-b")
    finally:
        TriggerContext.evaluate_expression = real_eval
        handler._callbacks.clear()
    return {s.tracepoint.id: s for s in push.snapshots}, (raised[0] if raised else None)


def observe(snapshot, heap):
    """Canonical view of a snapshot: ids as ints, identity hashes as reader oids."""
    def ref(v):
        return dict(vid=None if v.vid is None else int(v.vid), name=v.name, orig=v.original_name, mods=list(v.modifiers))
    table = []
    for vid, var in snapshot.var_lookup.items():
        table.append(dict(vid=int(vid), ty=var.type, val=var.value, trunc=bool(var.truncated),
                          oid=heap.oid.get(int(var.hash)), hash=var.hash, children=[ref(c) for c in var.children]))
    table.sort(key=lambda e: e["vid"])
    frames = [dict(file=f.file_name, short=f.short_path, func=f.method_name, line=f.line_number, cls=f.class_name,
                   app=f.app_frame, vars=[ref(v) for v in f.variables]) for f in snapshot.frames]
    watches = [dict(expr=w.expression, source=w.source, error=w.error, ref=None if w.result is None else ref(w.result))
               for w in snapshot.watches]
    return dict(frames=frames, table=table, watches=watches)


def read_heap(case):
    h = objgen.Heap()
    for f in case["frames"]:
        h.add(f["locals"])
    for _, v in case["watches"]:
        h.add(v)
    return h


# ----------------------------------------------------------------------------- Gallina literals
def lit_kind(rec, heap):
    k = rec["kind"]
    if k == "leaf":
        return "KLeaf"
    if k == "seq":
        return "(KSeq %s)" % L.lst(L.nat(heap.of(x)) for _, x in rec["children"])
    ch = L.lst("{| c_name := %s; c_oid := %s |}" % (L.s(n), L.nat(heap.of(x))) for n, x in rec["children"])
    return "(%s %s)" % ("KDict" if k == "dict" else "KObj", ch)


def lit_ref(r):
    return "{| r_vid := %s; r_name := %s; r_orig := %s |}" % (L.nat(r["vid"]), L.s(r["name"]),
                                                                L.opt(None if r["orig"] is None else L.s(r["orig"])))


def canon_text(entry, heap, max_str):
    """Placeholder text of unprintable objects is canonicalised on both sides."""
    rec = heap.objs[entry["oid"]] if entry["oid"] is not None else None
    if rec is not None and rec["unprintable"]:
        p = objgen.PLACEHOLDER
        return p[:max_str], len(p) > max_str
    return entry["val"], entry["trunc"]


def snap_literal(case, heap, obs, collect_flags):
    lim = case["limits"]
    objs = []
    for rec in heap.objs:
        objs.append("{| o_ty := %s; o_text := %s; o_kind := %s; o_sized := %s |}" % (L.s(rec["ty"]), L.s("" if rec.get("sized") else rec["text"]), lit_kind(rec, heap),
                                                                                   L.b(rec.get("sized", False))))
    total_children = sum(len(r["children"]) for r in heap.objs)
    fuel = min(5000, (total_children + len(case["frames"]) + len(case["watches"]) + 2))
    frames_in = L.lst("{| fr_locals := %s; fr_collect := %s |}" % (L.nat(heap.of(f["locals"])), L.b(c))
                      for f, c in zip(case["frames"], collect_flags))
    watches_in = L.lst(L.pair(L.s(w), L.nat(heap.of(v))) for w, v in case["watches"])
    tbl = []
    mods = []
    for e in obs["table"]:
        if e["oid"] is None:
            raise ValueError("table entry for an object the reader did not reach: hash %s" % e["hash"])
        val, trunc = canon_text(e, heap, lim["max_str"])
        tbl.append(L.pair(L.nat(e["vid"]),
                          "{| v_ty := %s; v_val := %s; v_trunc := %s; v_oid := %s; v_children := %s |}" % (
                              L.s(e["ty"]), L.s(val), L.b(trunc), L.nat(e["oid"]), L.lst(lit_ref(c) for c in e["children"]))))
        mods += e["children"]
    for f in obs["frames"]:
        mods += f["vars"]
    mlit = []
    for r in mods:
        m = {(): "MNone", ("protected",): "MProtected", ("private",): "MPrivate"}.get(tuple(r["mods"]))
        if m is None:
            raise ValueError("unexpected modifiers %r" % (r["mods"],))
        mlit.append("{| or_ref := %s; or_mod := %s |}" % (lit_ref(r), m))
    ofr = L.lst(L.lst(lit_ref(v) for v in f["vars"]) for f in obs["frames"])
    ow = L.lst(L.opt(None if w["ref"] is None else lit_ref(w["ref"])) for w in obs["watches"])
    return ("{| sn_cfg := {| max_vars := %s; max_coll := %s; max_depth := %s; max_str := %s |}; sn_heap := %s; "
            "sn_frames := %s; sn_watches := %s; sn_fuel := %s; sn_obs_frames := %s; sn_obs_table := %s; "
            "sn_obs_watches := %s; sn_obs_mods := %s |}") % (
        L.nat(lim["max_vars"]), L.nat(lim["max_coll"]), L.nat(lim["max_depth"]), L.nat(lim["max_str"]), L.lst(objs),
        frames_in, watches_in, L.nat(fuel), ofr, L.lst(tbl), ow, L.lst(mlit))


def collect_flags(case):
    ft = case["frame_type"]
    return [ft == "all_frame" or (ft != "no_frame" and i == 0) for i in range(len(case["frames"]))]


def describe(case, heap):
    """JSON-able description of a case (for evidence samples and replay files)."""
    return dict(limits=case["limits"], frame_type=case["frame_type"],
                frames=[dict(file=f["file"], func=f["func"], line=f["line"],
                             locals={k: "oid%d:%s" % (heap.of(v), type(v).__name__) for k, v in f["locals"].items()})
                        for f in case["frames"]],
                watches=[[w, "oid%d:%s" % (heap.of(v), type(v).__name__)] for w, v in case["watches"]],
                heap=[dict(oid=i, ty=r["ty"], kind=r["kind"], text=r["text"][:40],
                           children=[[n, heap.of(x)] for n, x in r["children"]]) for i, r in enumerate(heap.objs)])


# ----------------------------------------------------------------------------- structural helpers for oracles
def depths(obs):
    """Minimal depth of every table id: frame variables are depth 1 (the locals dict is depth 0),
    a watch root is depth 0."""
    tbl = {e["vid"]: e for e in obs["table"]}
    d = {}
    todo = []
    for f in obs["frames"]:
        for v in f["vars"]:
            todo.append((v["vid"], 1))
    for w in obs["watches"]:
        if w["ref"] is not None:
            todo.append((w["ref"]["vid"], 0))
    todo.sort(key=lambda x: x[1])
    while todo:
        vid, k = todo.pop(0)
        if vid in d and d[vid] <= k:
            continue
        d[vid] = k
        e = tbl.get(vid)
        if e:
            for c in e["children"]:
                todo.append((c["vid"], k + 1))
        todo.sort(key=lambda x: x[1])
    return d


def coqrun_build():
    from . import coqrun
    return coqrun.BUILD


# ----------------------------------------------------------------------------- cases without a snapshot
def no_snapshot(ctx, desc, raised):
    """C02 / C05 / C07 speak about the snapshots that ARE delivered; that every due tracepoint delivers one is C06 (and that
    nothing is raised into the host is C01).  A case without a snapshot is therefore skipped here - and counted."""
    ctx.notes["cases_without_snapshot"] = ctx.notes.get("cases_without_snapshot", 0) + 1
    if len(ctx.skipped) < 5:
        ctx.skip("no snapshot delivered (%r): nothing to examine for this property (C06 / C01 cover it)" % (raised,))


def too_many_skipped(ctx, total):
    n = ctx.notes.get("cases_without_snapshot", 0)
    if total and n * 2 > total:
        ctx.fail("%d of %d cases delivered no snapshot: the property can no longer be examined on this tree" % (n, total), None,
                 kind="correspondence", tag="mostly-no-snapshot")
