"""Generate real Python object graphs (with sharing, cycles and hostile values) and read them back
independently of the agent (abstract heap: type name, text, children by kind)."""
import collections
import datetime
import enum
import types


# ----------------------------------------------------------------------------- hostile / special classes
class Plain:
    pass


class Person:
    def __init__(self, name, age):
        self.name = name
        self._age = age
        self.__secret = "s3"


class Slotted:
    __slots__ = ("a", "b")

    def __init__(self, a, b):
        self.a, self.b = a, b


class BadStr:
    def __init__(self):
        self.x = 1

    def __str__(self):
        raise ValueError("no str")

    __repr__ = __str__


class BadRepr:
    def __repr__(self):
        raise RuntimeError("no repr")


class BadGetattr:
    __slots__ = ()

    def __getattr__(self, item):
        raise KeyError(item)


class BadLen:
    def __len__(self):
        raise TypeError("no len")


class BadBool:
    def __bool__(self):
        raise ValueError("no truth value")


class Falsy:
    """A perfectly good object that happens to be empty."""

    def __init__(self):
        self.items = []

    def __len__(self):
        return 0


class Color(enum.Enum):
    RED = 1
    BLUE = 2


def _gen():
    yield 1
    yield 2


class MyErr(Exception):
    pass


class OD(collections.OrderedDict):
    pass


Point = collections.namedtuple("Point", "x y")
Token = collections.namedtuple("Token", "text")


class Pair(tuple):
    pass


class BadGetattribute:
    """EVERY attribute access on an instance raises (not an AttributeError): also __class__, __dict__"""

    def __getattribute__(self, item):
        raise RuntimeError("no attribute access: %s" % item)


class OddArgsError(Exception):
    """an exception class whose `args` is not a sequence"""
    args = None


class ArgsRaisesError(Exception):
    """an exception class whose `args` cannot be read"""
    @property
    def args(self):
        raise ZeroDivisionError("args")


N_HOSTILE = 23


def hostile(rng, k=None):
    """one of the N_HOSTILE special shapes (k given: that one - the corpus that runs first in every collector check)"""
    if k is None:
        k = rng.randrange(N_HOSTILE)
    if k == 21:
        return {BadStr(): "value of an unprintable key", "plain": 1}
    if k == 22:
        return ArgsRaisesError.__new__(ArgsRaisesError)
    if k == 19:
        return BadGetattribute()
    if k == 20:
        return OddArgsError.__new__(OddArgsError)
    if k == 16:
        return rng.choice([Point(1, 2), Token("secret"), Pair((1, 2)), Point("a", [1])])
    if k == 17:
        import time
        return rng.choice([time.gmtime(0), Token(Point(1, 2))])
    if k == 18:
        p = Plain()
        p.__dict__["_Plain__caf" + "\udce9"] = 1          # a name-mangled attribute whose name is not valid unicode
        p.__dict__["ok\ud800"] = "v"
        return p
    if k == 0:
        return b"bytes\xff"
    if k == 1:
        return datetime.datetime(2020, 1, 2, 3, 4, 5)
    if k == 2:
        return collections.deque([1, 2, 3])
    if k == 3:
        return Color.RED
    if k == 4:
        return Slotted(1, "b")
    if k == 5:
        return _gen()
    if k == 6:
        return iter([1, 2, 3])
    if k == 7:
        return BadStr()
    if k == 8:
        return BadRepr()
    if k == 9:
        return BadGetattr()
    if k == 10:
        return BadLen()
    if k == 11:
        return MyErr("boom", 3, [1])
    if k == 12:
        return rng.choice([{1: "a", (2, 3): "b"}, {None: 1, 2.5: 2}])
    if k == 13:
        return rng.choice(["\ud800", "ok\udfffx", "\U0001F600"])
    if k == 14:
        return rng.choice([types, Plain, len, _gen, 1 + 2j, range(3), memoryview(b"ab"), object()])
    return OD(a=1, b=[2])


# (among them names that code likes to treat specially: the conventional receiver names, argument packs, credentials)
NAMES = ["a", "b", "c", "d", "e", "f", "val", "items", "self", "_p", "__q", "x1", "data", "cfg", "n", "s",
         "cls", "kwargs", "password", "api_token", "this", "args"]


def scalar(rng):
    k = rng.randrange(7)
    if k == 0:
        return rng.choice([0, 1, 2, 7, 100, 257, 10 ** 12, -3])
    if k == 1:
        return rng.choice(["", "x", "hello", "hé wörld", "y" * 12, "z" * 70, "w" * 300])
    if k == 2:
        # values that are EQUAL (and hash alike) across types but print differently: True / 1 / 1.0, False / 0 / 0.0 / -0.0
        return rng.choice([0.5, 1.25, -2.0, 1.0, 0.0, -0.0, 2.0, 100.0])
    if k == 3:
        return rng.choice([True, False])
    if k == 4:
        return None
    if rng.random() < 0.15:
        return rng.choice([Point(1, 2), Token("t"), Pair((3, 4))])
    return rng.choice(["k%d" % rng.randrange(50), rng.randrange(300, 400)])


class Gen:
    """Builds values; keeps every object alive in self.pool so ids stay unique during a case."""

    def __init__(self, rng, hostile_p=0.08, max_nodes=40):
        self.rng = rng
        self.pool = []
        self.containers = []
        self.hostile_p = hostile_p
        self.budget = max_nodes

    def value(self, depth=0):
        rng = self.rng
        self.budget -= 1
        if self.budget <= 0 or depth > 5:
            v = scalar(rng)
            self.pool.append(v)
            return v
        r = rng.random()
        if r < self.hostile_p:
            v = hostile(rng)
        elif r < 0.15 and self.pool:
            v = rng.choice(self.pool)           # sharing
        elif r < 0.5:
            v = scalar(rng)
        elif r < 0.62:
            v = [self.value(depth + 1) for _ in range(rng.choice([0, 1, 2, 3, 5, 12]))]
            self.containers.append(v)
        elif r < 0.68:
            v = tuple(self.value(depth + 1) for _ in range(rng.choice([0, 1, 2, 4])))
        elif r < 0.73:
            v = set()
            for _ in range(rng.choice([0, 1, 3, 12])):
                x = scalar(rng)
                self.pool.append(x)
                v.add(x)
            if rng.random() < 0.3:
                v = frozenset(v)
        elif r < 0.86:
            v = {}
            for _ in range(rng.choice([0, 1, 2, 3, 6])):
                v[rng.choice(NAMES)] = self.value(depth + 1)
            self.containers.append(v)
        elif r < 0.95:
            v = Plain()
            for _ in range(rng.choice([0, 1, 2, 4])):
                setattr(v, rng.choice(NAMES), self.value(depth + 1))
            if rng.random() < 0.3:
                v.__dict__["_Plain__hidden"] = self.value(depth + 1)
            self.containers.append(v)
        else:
            v = Person(self.value(depth + 1), rng.randrange(90))
            self.containers.append(v)
        self.pool.append(v)
        return v

    def tie_cycles(self):
        rng = self.rng
        for c in self.containers:
            if rng.random() < 0.12 and self.containers:
                t = rng.choice(self.containers)
                if isinstance(c, list):
                    c.append(t)
                elif isinstance(c, dict):
                    c[rng.choice(NAMES)] = t
                else:
                    setattr(c, rng.choice(NAMES), t)

    def locals_dict(self, n=None):
        rng = self.rng
        n = rng.choice([0, 1, 2, 3, 5, 8]) if n is None else n
        names = rng.sample(NAMES, min(n, len(NAMES)))
        d = {}
        for nm in names:
            d[nm] = self.value(1)
        self.pool.append(d)
        return d


# ----------------------------------------------------------------------------- independent reader
NO_CHILD = {'str', 'int', 'float', 'bool', 'type', 'module', 'unicode', 'long', 'NoneType', 'traceback',
            'list_iterator', 'listiterator', 'list_reverseiterator', 'listreverseiterator'}
LIST_LIKE = {'frozenset', 'set', 'list', 'tuple'}
ITER_LIKE = {'list_iterator', 'listiterator', 'list_reverseiterator', 'listreverseiterator'}
PLACEHOLDER = "<unprintable>"


def safe_name(k):
    if isinstance(k, str):
        return k
    try:
        return str(k)
    except Exception:
        return "%s@%d" % (type(k), id(k))


class Heap:
    """Abstract reading of the objects reachable from some roots: oid per identity, discovery order."""

    def __init__(self):
        self.oid = {}        # id(obj) -> oid
        self.objs = []       # oid -> dict(ty, text, kind, children, unprintable, obj)

    def add(self, root):
        todo = [root]
        while todo:
            o = todo.pop(0)
            if id(o) in self.oid:
                continue
            self.oid[id(o)] = len(self.objs)
            rec = dict(obj=o, ty=type(o).__name__, unprintable=False)
            self.objs.append(rec)
            tname = rec["ty"]
            # text
            if tname in ITER_LIKE:
                rec["text"] = "Iterator of type: %s" % type(o)
            elif type(o) is dict or tname in LIST_LIKE:
                rec["text"] = "Size: %d" % len(o)      # for the direct oracles; the model computes it itself (o_sized)
                rec["sized"] = True
            else:
                try:
                    rec["text"] = str(o)
                except Exception:
                    rec["text"] = PLACEHOLDER
                    rec["unprintable"] = True
            # children by kind
            kids = []
            if tname in NO_CHILD:
                rec["kind"] = "leaf"
            elif type(o) is dict:
                rec["kind"] = "dict"
                kids = [(safe_name(k), o[k]) for k in list(o.keys())]
            elif tname in LIST_LIKE:
                rec["kind"] = "seq"
                kids = [(None, x) for x in tuple(o)]
            elif issubclass(type(o), Exception):
                rec["kind"] = "seq"
                try:
                    args = o.args if isinstance(o.args, (tuple, list)) else ()
                except Exception:
                    args = ()
                kids = [(None, x) for x in args]
            else:
                try:
                    d = o.__dict__
                    kids = [(safe_name(k), d[k]) for k in list(d.keys())]
                    rec["kind"] = "obj"
                except Exception:
                    rec["kind"] = "leaf"
            rec["children"] = kids
            for _, x in kids:
                todo.append(x)
        return self.oid[id(root)]

    def of(self, obj):
        return self.oid.get(id(obj))
