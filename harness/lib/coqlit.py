"""Emit Gallina literals (all numerals carry an explicit scope)."""


def z(n):
    n = int(n)
    return "(%d)%%Z" % n


def nat(n):
    n = int(n)
    assert 0 <= n <= 5000, "nat literal too large: %r" % n
    return "%d%%nat" % n


def b(x):
    return "true" if x else "false"


def lst(items):
    items = list(items)
    if not items:
        return "[]"
    return "[" + "; ".join(items) + "]"


def s(text):
    """Python str -> list Z of code points."""
    return lst("%d" % ord(ch) for ch in text) if text else "[]"


def sZ(text):
    return "(" + s(text) + " : list Z)"


def opt(x):
    return "None" if x is None else "(Some %s)" % x


def pair(a, c):
    return "(%s, %s)" % (a, c)


def app(f, *args):
    return "(" + " ".join([f] + list(args)) + ")"
