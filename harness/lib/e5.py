"""E5 driver for the configuration service: real TracepointConfigService + ConfigService + TriggerHandler +
LongPoll.poll, with a CONTROLLED task handler (the harness decides which of the two running update tasks
performs its installation first) and a scripted poll stub."""
from . import coqlit as L


class CtlFuture:
    def __init__(self):
        self.cbs = []
        self.finished = False

    def add_done_callback(self, cb):
        self.cbs.append(cb)
        if self.finished:
            cb(self)

    def done(self):
        return self.finished

    def running(self):
        return False

    def cancelled(self):
        return False

    def exception(self, timeout=None):
        return None

    def result(self, timeout=None):
        return None


class CtlTasks:
    """submit_task as TaskHandler's; tasks run when the harness says so (index 0 or 1 of the pending list:
    the pool has two workers)."""

    def __init__(self):
        self.pending = []

    def submit_task(self, task, *args):
        fut = CtlFuture()
        self.pending.append((task, args, fut))
        return fut

    def run(self, k):
        if k >= 2 or k >= len(self.pending):
            return False
        task, args, fut = self.pending.pop(k)
        try:
            task(*args)
        finally:
            fut.finished = True
            for cb in fut.cbs:
                cb(fut)
        return True

    def flush(self):
        while self.pending:
            self.run(0)


class FakeGrpc:
    channel = None

    def __init__(self, md=None):
        self.md = md or []

    def metadata(self):
        return self.md


class ScriptedStub:
    """Stands in for PollConfigStub: answers from a script, records every request and its metadata."""
    script = []
    requests = []

    def __init__(self, channel):
        pass

    def poll(self, request, metadata=None):
        ScriptedStub.requests.append((request, metadata))
        item = ScriptedStub.script.pop(0)
        if isinstance(item, BaseException):
            raise item
        return item


class World:
    def __init__(self):
        import deep.poll.poll as pollmod
        from deep.api.resource import Resource
        from deep.config.config_service import ConfigService
        from deep.config.tracepoint_config import TracepointConfigService
        from deep.poll import LongPoll
        from deep.processor.trigger_handler import TriggerHandler
        self.svc = TracepointConfigService()
        self.cfg = ConfigService({"APP_ROOT": "/app"}, tracepoints=self.svc)
        self.cfg.resource = Resource.create()
        self.tasks = CtlTasks()
        self.cfg.set_task_handler(self.tasks)
        self.handler = TriggerHandler(self.cfg, None)
        self.pollmod = pollmod
        self.saved_stub = pollmod.PollConfigStub
        pollmod.PollConfigStub = ScriptedStub
        ScriptedStub.script, ScriptedStub.requests = [], []
        self.poll = LongPoll(self.cfg, FakeGrpc())
        self.handles = []          # real handles in order of registration

    def close(self):
        self.pollmod.PollConfigStub = self.saved_stub

    def installed(self):
        """Numbers of the tracepoints the handler acts on, in order."""
        out = []
        for trig in self.handler._tp_config:
            for a in trig._Trigger__actions:
                w = a.config.get("watches") or []
                out.append(int(w[0]) if w else int(a.id))
        return out

    def custom_numbers(self):
        out = []
        for trig in self.svc._custom:
            for a in trig._Trigger__actions:
                out.append(int(a.config["watches"][0]))
        return out

    def do_poll(self, answer):
        """What RepeatedTimer._target does: call poll, swallow and log any Exception."""
        ScriptedStub.script.append(answer)
        try:
            self.poll.poll()
            return None
        except Exception as e:
            return e


def poll_update(ts, h, numbers):
    from deepproto.proto.poll.v1.poll_pb2 import PollResponse, ResponseType
    from deepproto.proto.tracepoint.v1.tracepoint_pb2 import TracePointConfig
    return PollResponse(ts_nanos=ts, current_hash=str(h), response_type=ResponseType.UPDATE,
                        # several service tracepoints share a line (they are merged into one trigger per location)
                        # (and carry arguments of every sort: the well-formed ones, values no reader expects, keys nobody reads -
                        # a tracepoint is installed with what can be made of its arguments, and the response as a whole always is)
                        response=[TracePointConfig(ID=str(n), path="polled.py", line_number=10 + n % 3, args=ODD_ARGS[n % len(ODD_ARGS)])
                                  for n in numbers])


ODD_ARGS = [{}, {"fire_count": "3"}, {"window_start": "", "window_end": "2030-01-01"}, {"fire_period": "soon", "fire_count": ""},
            {}, {"window_start": "12", "window_end": "x"}, {"frame_type": "whole", "stack_type": "?"}, {"log_msg": "m {a}"}]


def poll_no_change(ts):
    from deepproto.proto.poll.v1.poll_pb2 import PollResponse, ResponseType
    return PollResponse(ts_nanos=ts, response_type=ResponseType.NO_CHANGE)


def op_lit(op):
    k = op[0]
    if k == "update":
        return "(PollUpdate %s %s %s)" % (L.z(op[1]), L.nat(op[2]), L.lst(L.nat(n) for n in op[3]))
    if k == "nochange":
        return "(PollNoChange %s)" % L.z(op[1])
    if k == "failed":
        return "PollFailed"
    if k == "register":
        return "(Register %s)" % L.nat(op[1])
    if k == "register-refused":
        return "RegisterRefused"
    if k == "unregister":
        return "(Unregister %s)" % L.nat(op[1])
    return "(RunTask %s)" % L.nat(op[1])
