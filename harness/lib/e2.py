"""E2 driver: the real TriggerHandler with recording plugins, a fake push service, a per-thread virtual
clock and synthetic frames, so that event sequences, clocks and locals are under exact control."""
import threading
import types

from . import coqlit as L

BASE_NS = 1_700_000_000_000_000_000


class FakePush:
    def __init__(self, log=None):
        self.snapshots = []
        self.log = log

    def push_snapshot(self, snapshot):
        self.snapshots.append(snapshot)
        if self.log is not None:
            self.log.append(("snapshot", snapshot.tracepoint.id, threading.get_ident(), snapshot))


class Clock:
    """time_ns replacement: one current time per thread (falls back to a global value)."""

    def __init__(self):
        self.now = BASE_NS
        self.per_thread = {}
        self.saved = None

    def __call__(self):
        return self.per_thread.get(threading.get_ident(), self.now)

    def install(self):
        import deep.processor.frame_collector as fc
        import deep.processor.context.trigger_context as tc
        import deep.api.tracepoint.eventsnapshot as es
        self.saved = (fc.time_ns, tc.time_ns, es.time_ns)
        fc.time_ns = tc.time_ns = es.time_ns = self
        return self

    def restore(self):
        import deep.processor.frame_collector as fc
        import deep.processor.context.trigger_context as tc
        import deep.api.tracepoint.eventsnapshot as es
        fc.time_ns, tc.time_ns, es.time_ns = self.saved


def mk_frame(filename, func, line, f_locals=None, back=None, f_globals=None):
    # (a code object as far as the agent may look at one: names of the locals, no closure variables)
    code = types.SimpleNamespace(co_filename=filename, co_name=func, co_varnames=tuple(f_locals or ()), co_freevars=(), co_cellvars=(),
                                 co_firstlineno=max(1, line - 1), co_argcount=0, co_flags=0)
    return types.SimpleNamespace(f_code=code, f_lineno=line, f_locals=f_locals if f_locals is not None else {}, f_back=back,
                                 f_globals=f_globals if f_globals is not None else {"__name__": "host"})


def plugin_classes():
    from deep.api.plugin import Plugin, TracepointLogger
    from deep.api.plugin.metric import MetricProcessor
    from deep.api.plugin.span import SpanProcessor

    class RecLogger(TracepointLogger):
        def __init__(self, log):
            super().__init__("rec-logger", None)
            self.log = log

        def __len__(self):          # a plugin may well be a buffer that is empty right now: it is still THE logger
            return 0

        def log_tracepoint(self, log_msg, tp_id, ctx_id):
            self.log.append(("log", tp_id, threading.get_ident(), dict(msg=log_msg, tp_id=tp_id, ctx_id=ctx_id)))

    class RecSpan:
        def __init__(self, log, name, ctx_id, tp_id, pname):
            self.log, self.name, self.tp_id, self.pname, self.ctx_id = log, name, tp_id, pname, ctx_id
            self.closed = 0

        def close(self):
            self.closed += 1
            self.log.append(("span-close", self.tp_id, threading.get_ident(), self))

        def __len__(self):          # a span with no events recorded yet is still a span
            return 0

    class RecSpans(SpanProcessor):
        def __init__(self, log, pname="spans"):
            super().__init__(pname, None)
            self.log, self.pname = log, pname
            self.spans = []

        def __len__(self):
            return 0

        def create_span(self, name, context_id, tracepoint_id):
            s = RecSpan(self.log, name, context_id, tracepoint_id, self.pname)
            self.spans.append(s)
            self.log.append(("span-open", tracepoint_id, threading.get_ident(), s))
            return s

        def current_span(self):
            return None

    class RecMetrics(MetricProcessor):
        def __init__(self, log, pname="metrics"):
            super().__init__(pname, None)
            self.log, self.pname = log, pname

        def __len__(self):          # a processor that buffers samples and holds none right now is still a processor
            return 0

        def _rec(self, op, name, labels, namespace, help_string, unit, value):
            self.log.append(("metric", None, threading.get_ident(),
                             dict(proc=self.pname, op=op, name=name, labels=dict(labels), namespace=namespace, help=help_string,
                                  unit=unit, value=value)))

        def counter(self, name, labels, namespace, help_string, unit, value):
            self._rec("counter", name, labels, namespace, help_string, unit, value)

        def gauge(self, name, labels, namespace, help_string, unit, value):
            self._rec("gauge", name, labels, namespace, help_string, unit, value)

        def histogram(self, name, labels, namespace, help_string, unit, value):
            self._rec("histogram", name, labels, namespace, help_string, unit, value)

        def summary(self, name, labels, namespace, help_string, unit, value):
            self._rec("summary", name, labels, namespace, help_string, unit, value)

        def clear(self):
            pass
    return RecLogger, RecSpans, RecMetrics


class World:
    """A real handler wired to recorders.  self.log is the global, ordered effect log."""

    def __init__(self, logger=True, spans=1, metrics=1, custom=None):
        from deep.api.resource import Resource
        from deep.config.config_service import ConfigService
        from deep.config.tracepoint_config import TracepointConfigService
        from deep.processor.trigger_handler import TriggerHandler
        RecLogger, RecSpans, RecMetrics = plugin_classes()
        self.log = []
        cfgd = {"APP_ROOT": "/app"}
        cfgd.update(custom or {})
        self.cfg = ConfigService(cfgd, tracepoints=TracepointConfigService())
        self.cfg.resource = Resource.create()
        plugins = []
        if logger:
            plugins.append(RecLogger(self.log))
        for k in range(spans):
            plugins.append(RecSpans(self.log, "spans%d" % k))
        for k in range(metrics):
            plugins.append(RecMetrics(self.log, "metrics%d" % k))
        self.cfg.plugins = plugins
        self.push = FakePush(self.log)
        self.handler = TriggerHandler(self.cfg, self.push)

    def install(self, triggers):
        self.handler.new_config(triggers)

    def event(self, frame, kind, arg=None):
        """Deliver one trace event.  Returns (what trace_call returned, exception that escaped or None)."""
        try:
            return self.handler.trace_call(frame, kind, arg), None
        except BaseException as e:      # must never happen (C01); the caller records it
            return None, e

    def pending(self):
        """The callback store (all threads)."""
        from deep.thread_local import ThreadLocal
        return dict(ThreadLocal._ThreadLocal__store)

    def clear_pending(self):
        from deep.thread_local import ThreadLocal
        ThreadLocal._ThreadLocal__store.clear()


def stats_of(action):
    st = action._LocationAction__stats
    return st.fire_count, st.last_fire


def argv(v):
    if v is None:
        return "None"
    if isinstance(v, str):
        return "(Some (AText %s))" % L.s(v)
    return "(Some (ANum %s))" % L.z(v)
