"""Run context: coverage counters, failures, proof / correspondence status, evidence, verdict."""
import collections
import hashlib
import json
import os
import random
import sys
import time

from . import coqrun

VERIF = coqrun.VERIF
TRUSTED_BASE = [
    "Coq 8.16.1 kernel (coqc), including the vm_compute virtual machine; no native_compute",
    "axioms: none (every Print Assumptions under a property theorem must answer 'Closed under the global context')",
    "extraction: not used; the model is evaluated inside Coq on generated case files",
    "correspondence harness (harness/props/*.py, harness/lib/*.py): generators, drivers, Gallina literal emitter, "
    "canonicalisation; a bug there can hide a disagreement only on inputs it mis-encodes",
    "property oracles written from the property text in plain Python (failing-input search only)",
]


def _canon(obj):
    return json.dumps(obj, sort_keys=True, default=repr)


class Ctx:
    def __init__(self, cid, tier, seed, replay=None):
        self.cid, self.tier, self.seed = cid, tier, seed
        self.rng = random.Random("%s:%d" % (cid, seed))
        self.t0 = time.time()
        self.failures = []
        self.proof = None
        self.corr = []
        self.evaluations = 0
        self._distinct = set()
        self.samples = []
        self.hist = collections.Counter()
        self.assumptions = []
        self.notes = {}
        self.traces_validated = 0
        self.rule = ""
        self.skipped = []
        self.extra_trusted = []
        self.thorough = tier == "thorough"

    # ---- coverage ----
    def case(self, obj, nontrivial=True, bucket=None):
        self.evaluations += 1
        if nontrivial:
            self._distinct.add(hashlib.sha1(_canon(obj).encode()).hexdigest())
        if len(self.samples) < 4 or (self.evaluations % 97 == 0 and len(self.samples) < 8):
            self.samples.append(obj)
        if bucket is not None:
            self.hist[bucket] += 1

    def fail(self, what, case=None, observed=None, required=None, kind="input", tag=None):
        self.failures.append(dict(property=self.cid, kind=kind, what=what, case=case, observed=observed,
                                  required=required, tag=tag))

    def skip(self, what):
        self.skipped.append(what)

    # ---- proof and correspondence ----
    def prove(self):
        # translator-tied part of the model: regenerate coq/gen from /repo/src as it is now
        try:
            from ..translate import gen
            self.notes["translated"] = {k: {kk: vv for kk, vv in v.items() if kk not in ("prim_table", "files")}
                                        for k, v in gen.regenerate().items()}
        except BaseException as e:      # a source the translator cannot read breaks the proof obligation, not the run
            self.notes["translator_error"] = repr(e)
        ok, log = coqrun.ensure_built()
        # the verdict is that of THIS property's theorem file, compiled against what did build: a file elsewhere in the
        # development that no longer compiles breaks only the properties whose theorems depend on it
        self.proof = coqrun.check_props(self.cid)
        if not ok:
            self.proof["build_log"] = log[-1500:]
            self.proof["build_failed_somewhere"] = True
        if self.thorough and self.proof.get("ok"):
            chk = coqrun.coqchk(self.cid)
            self.notes["coqchk"] = {k: v for k, v in chk.items() if k != "tail" or not chk["ok"]}
            if not chk["ok"]:
                self.proof["ok"] = False
                self.proof["log"] = "coqchk: " + chk["tail"]
        return self.proof

    def correspond(self, name, imports, case_type, checker, literals, cases_json=None, shard=300, extra_defs="",
                   explain=None):
        """Evaluate the model's checker on (input, implementation observation) cases inside Coq."""
        if not literals:
            return []
        t = time.time()
        bad, errors, n = coqrun.eval_cases(self.cid, name, imports, case_type, checker, literals, shard=shard,
                                           extra_defs=extra_defs)
        rec = dict(name=name, cases=len(literals), mismatches=len(bad), shard_errors=len(errors), shards=n,
                   checker=checker, wall_s=round(time.time() - t, 2))
        if bad:
            i = bad[0]
            rec["first_mismatch"] = dict(index=i, case=(cases_json[i] if cases_json else None), literal=literals[i][:3000])
            if explain:
                rec["first_mismatch"]["model_says"] = coqrun.eval_term(
                    self.cid, name + "_explain", imports, explain % literals[i], extra_defs=extra_defs)
        if errors:
            rec["errors"] = errors[:2]
        self.corr.append(rec)
        self.traces_validated += len(literals) - len(bad)
        return bad

    def finish_replay(self, data, path):
        """Verdict of a --replay run: is the recorded failure (same tag, or the same broken obligation) still there?"""
        from .. import known
        known_lines = known.load(self.cid)
        tag = data.get("tag")
        again = [f for f in self.failures if known.match(known_lines, f) is None and (tag is None or f.get("tag") == tag)]
        proof_broken = self.proof is not None and not self.proof.get("ok")
        corr_broken = [c for c in self.corr if c["mismatches"] or c["shard_errors"]]
        if data.get("kind") in ("proof", "correspondence"):
            still = proof_broken or bool(corr_broken)
            if still:
                print("VIOLATION property=%s replay=%s no-failing-input-found" % (self.cid, path))
                print("  still unproved: " + ("proof obligation" if proof_broken else "correspondence " + corr_broken[0]["name"]))
            else:
                print("%s replay: the obligation recorded in %s checks again on the current tree" % (self.cid, path))
            return 1 if still else 0
        if again:
            print("VIOLATION property=%s replay=%s" % (self.cid, path))
            print("  " + again[0]["what"])
            return 1
        print("%s replay: the failure recorded in %s (tag %r) does not occur on the current tree" % (self.cid, path, tag))
        return 0

    # ---- verdict ----
    def finish(self):
        from .. import known
        wall = round(time.time() - self.t0, 2)
        known_lines = known.load(self.cid)
        reported_known, violations = [], []
        for f in self.failures:
            k = known.match(known_lines, f)
            if k is not None:
                if k not in reported_known:
                    reported_known.append(k)
            else:
                violations.append(f)
        proof_broken = self.proof is not None and not self.proof.get("ok")
        corr_broken = [c for c in self.corr if c["mismatches"] or c["shard_errors"]]
        rdir = os.path.join(VERIF, "build", "replay")
        os.makedirs(rdir, exist_ok=True)
        lines = []
        for k in reported_known:
            lines.append("KNOWN-FINDING: property=%s %s" % (self.cid, k["text"]))
        seen = set()
        nrep = 0
        for f in violations:
            key = f.get("tag") or f["what"]
            if key in seen:
                continue
            seen.add(key)
            nrep += 1
            if nrep > 8:
                break
            path = os.path.join(rdir, "%s-%s-%d.json" % (self.cid, self.tier, nrep))
            with open(path, "w") as fh:
                json.dump(dict(f, tier=self.tier, seed=self.seed), fh, indent=1, default=repr)
            # a failure that says "this can no longer be examined / compared" names no failing input
            lines.append("VIOLATION property=%s replay=%s%s" % (self.cid, path, " no-failing-input-found" if f.get("kind") in ("correspondence", "proof") else ""))
        if not violations and (proof_broken or corr_broken):
            path = os.path.join(rdir, "%s-%s-unproved.json" % (self.cid, self.tier))
            with open(path, "w") as fh:
                json.dump(dict(property=self.cid, tier=self.tier, seed=self.seed,
                               kind="proof" if proof_broken else "correspondence",
                               theorem=(dict(file="coq/props/%s.v" % self.cid, log=self.proof.get("log"),
                                             axioms=self.proof.get("axioms"), forbidden=self.proof.get("forbidden"))
                                        if proof_broken else None),
                               correspondence=corr_broken or None,
                               note="no concrete failing input was found by the search"), fh, indent=1, default=repr)
            lines.append("VIOLATION property=%s replay=%s no-failing-input-found" % (self.cid, path))
        nviol = sum(1 for ln in lines if ln.startswith("VIOLATION"))
        thms = self.proof["theorems"] if self.proof else []
        obligations = len(thms)
        discharged = obligations if (self.proof and self.proof.get("ok")) else 0
        cov = dict(
            obligations=obligations, discharged=discharged,
            checker_cmd=(self.proof or {}).get("cmd", "coqc props/%s.v" % self.cid) + " ; per-run case files: coqc build/cases/%s/*.v (Eval vm_compute in bad_indices ...)" % self.cid,
            trusted_base=TRUSTED_BASE + self.extra_trusted,
            theorems=thms, print_assumptions_closed=(self.proof or {}).get("closed", 0),
            axioms=(self.proof or {}).get("axioms", []),
            evaluations=self.evaluations, distinct_nontrivial=len(self._distinct), rule=self.rule,
            samples=self.samples[:8] or ["(no generated cases in this run)"],
            traces_validated_against_impl=self.traces_validated,
            correspondence=self.corr, input_distribution=dict(self.hist),
            known_findings_reported=[k["text"] for k in reported_known],
            skipped=self.skipped, notes=self.notes, exhaustive=bool(self.notes.get("exhaustive", False)),
        )
        ev = dict(property_id=self.cid, tier=self.tier, seed=self.seed, level="proof", coverage=cov,
                  assumptions=self.assumptions, wall_s=wall, violations=nviol)
        os.makedirs(os.path.join(VERIF, "evidence"), exist_ok=True)
        with open(os.path.join(VERIF, "evidence", self.cid + ".json"), "w") as fh:
            json.dump(ev, fh, indent=1, default=repr)
        for ln in lines:
            print(ln)
        print("%s %s: %d theorems (%s), %d evaluations, %d distinct, corr %s, %d failures (%d known lines), %.1fs" % (
            self.cid, self.tier, obligations, "ok" if discharged == obligations and obligations else "BROKEN",
            self.evaluations, len(self._distinct),
            ",".join("%s:%d/%d" % (c["name"], c["cases"] - c["mismatches"], c["cases"]) for c in self.corr) or "-",
            len(self.failures), len(reported_known), wall))
        sys.stdout.flush()
        return 1 if nviol else 0
