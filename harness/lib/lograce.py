"""Forced two-thread schedule through log-message fields (used by C10 and C16).

Thread A is parked INSIDE the evaluation of one field of its log message (the field calls a function of A's
frame that waits) while thread B passes a log tracepoint from start to end; then A resumes.  Every field of
A's message must still be evaluated in A's paused frame, A's snapshot must carry one watch result per field
of A's message, and B's message must be B's."""
import threading

from . import e2


def run_cases(ctx, n, tag_prefix):
    from deep.api.tracepoint.trigger import LocationAction, Trigger, LineLocation, Location
    rng = ctx.rng
    for k in range(n):
        world = e2.World(logger=True, spans=0, metrics=0)
        nf_before, nf_after = rng.choice([0, 1, 2]), rng.choice([1, 1, 2, 3])
        names = ["who", "n", "tag", "who", "n"]
        fields = [names[i] for i in range(nf_before)] + ["gate()"] + [names[(i + 1) % 5] for i in range(nf_after)]
        tpl = " ".join("%s={%s}" % (f.strip("()"), f) for f in fields)
        collecting = rng.random() < 0.5
        same_tp = rng.random() < 0.5
        acts = []
        for tid in (["tp-ab"] if same_tp else ["tp-a", "tp-b"]):
            if collecting:
                conf = {"fire_count": "-1", "fire_period": "0", "log_msg": tpl, "frame_type": "no_frame", "watches": []}
                acts.append(LocationAction(tid, None, conf, LocationAction.ActionType.Snapshot))
            else:
                acts.append(LocationAction(tid, None, {"fire_count": "-1", "fire_period": "0", "log_msg": tpl}, LocationAction.ActionType.Log))
        trigs = [Trigger(LineLocation("m.py", 7, Location.Position.START), [acts[0]])]
        if not same_tp:
            trigs.append(Trigger(LineLocation("m.py", 9, Location.Position.START), [acts[1]]))
        world.install(trigs)
        a_in, b_done = threading.Event(), threading.Event()

        def gate_a():
            a_in.set()
            b_done.wait(60)
            return "passed"

        def gate_b():
            return "passed"
        loc_a = {"who": "alpha", "n": 2, "tag": "ta", "gate": gate_a}
        loc_b = {"who": "beta", "n": 200, "tag": "tb", "gate": gate_b}
        out = {}

        def thread_a():
            out["a"] = world.event(e2.mk_frame("/app/m.py", "g", 7, loc_a), "line")
            out["a_id"] = threading.get_ident()

        ta = threading.Thread(target=thread_a)
        ta.start()
        reached = a_in.wait(60)
        out["b"] = world.event(e2.mk_frame("/app/m.py", "g", 7 if same_tp else 9, loc_b), "line")
        b_id = threading.get_ident()
        b_done.set()
        ta.join(60)
        j = dict(template=tpl, collecting=collecting, same_tracepoint=same_tp,
                 schedule="A parked inside field %d of %d while B evaluates its whole message" % (nf_before + 1, len(fields)))
        ctx.case(j, nontrivial=True, bucket="two-thread log fields")
        if not reached or ta.is_alive():
            ctx.fail("schedule could not be forced (thread A never reached its gate field / did not finish)", j, kind="schedule",
                     tag=tag_prefix + "-race-setup")
            continue
        for who, loc, ident in (("A", loc_a, out.get("a_id")), ("B", loc_b, b_id)):
            want = "[deep] " + " ".join("%s=%s" % (f.strip("()"), "passed" if f == "gate()" else loc[f]) for f in fields)
            msgs = [p["msg"] for w, _tp, tid, p in world.log if w == "log" and tid == ident]
            if not msgs and tag_prefix == "c10":
                # a hit that logs nothing at all is not a question of WHERE its fields are evaluated (C03 / C16 cover it)
                ctx.skip("thread %s logged nothing under the forced schedule" % who)
                continue
            if msgs != [want]:
                ctx.fail("thread %s logged %r while thread %s was inside a field of its own message; its frame gives %r" % (
                    who, msgs, "B" if who == "A" else "A", want), dict(j, thread=who, observed=msgs, required=want), kind="schedule",
                    tag=tag_prefix + "-field-other-frame")
            if collecting:
                snaps = [p for w, _tp, tid, p in world.log if w == "snapshot" and tid == ident]
                if len(snaps) != 1:
                    ctx.fail("thread %s delivered %d snapshots" % (who, len(snaps)), dict(j, thread=who), kind="schedule",
                             tag=tag_prefix + "-race-snapshots")
                    continue
                s = snaps[0]
                got = [w.expression for w in s.watches]
                if got != fields or s.log_msg != want:
                    ctx.fail("thread %s's snapshot carries watch results %r and log message %r; its message has the fields %r and reads %r" % (
                        who, got, s.log_msg, fields, want), dict(j, thread=who, observed=got, required=fields), kind="schedule",
                        tag=tag_prefix + "-race-watches")
                    continue
                for f, w in zip(fields, s.watches):
                    var = s.var_lookup.get(w.result.vid) if w.result is not None else None
                    val = None if var is None else var.value
                    wantv = "passed" if f == "gate()" else str(loc[f])
                    if val != wantv:
                        ctx.fail("thread %s: the watch result of field %r is %r, its frame gives %r" % (who, f, val, wantv),
                                 dict(j, thread=who, field=f), kind="schedule", tag=tag_prefix + "-race-watch-value")
        for key in ("a", "b"):
            if out.get(key, (None, None))[1] is not None:
                ctx.fail("the handler raised %r" % (out[key][1],), j, kind="schedule", tag=tag_prefix + "-race-raised")
        world.clear_pending()
