import io
import logging
import sys
import threading

mode = sys.argv[1]


def work(n):
    data = b"bytes-%d" % n
    gen = (i for i in range(3))
    total = len(data) + n
    return total


def main():
    out = [work(1), work(2)]
    log = logging.getLogger("orders")
    log.warning("first warning")
    stream = io.StringIO()
    logging.basicConfig(stream=stream, level=logging.INFO, format="%(levelname)s|%(name)s|%(message)s")
    log.info("configured")
    out.append(stream.getvalue())
    out.append(len(logging.getLogger().handlers))
    return out


if mode == "agent":
    import os
    from deep.api.resource import Resource
    from deep.api.tracepoint.trigger import LocationAction, Trigger, LineLocation, Location
    from deep.config.config_service import ConfigService
    from deep.config.tracepoint_config import TracepointConfigService
    from deep.processor.trigger_handler import TriggerHandler

    class Push:
        def __init__(self):
            self.n = 0

        def push_snapshot(self, s):
            self.n += 1
    cfg = ConfigService({"APP_ROOT": os.path.dirname(os.path.abspath(__file__))}, tracepoints=TracepointConfigService())
    cfg.resource = Resource.create()
    push = Push()
    handler = TriggerHandler(cfg, push)
    line = [i + 1 for i, t in enumerate(open(__file__).read().split("\n")) if "total = len(data) + n" in t][0]
    handler.new_config([Trigger(LineLocation(os.path.basename(__file__), line, Location.Position.START),
                                [LocationAction("tp", None, {"fire_count": "-1", "fire_period": "0", "frame_type": "single_frame", "watches": []},
                                                LocationAction.ActionType.Snapshot)])])
    sys.settrace(handler.trace_call)
    try:
        res = main()
    finally:
        sys.settrace(None)
    print(repr(res))
    print("snapshots", push.n, file=sys.stderr) if False else None
else:
    print(repr(main()))
