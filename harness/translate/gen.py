"""Regenerate coq/gen/*.v from /repo/src (written only when the content changed).

Every generator is fail-closed on its own: if it cannot read the source, its file is rewritten WITHOUT the
definitions, so that exactly the theorems stated over that file stop compiling (a stale file is never kept)."""
import json
import os
import sys

HERE = os.path.dirname(os.path.dirname(os.path.dirname(os.path.abspath(__file__))))
sys.path.insert(0, HERE)


def _failed(name, ex):
    return "(* %s.v: NOT GENERATED from /repo/src: %s *)\n" % (name, repr(ex).replace("*)", "* )"))


def regenerate():
    from harness.lib import coqrun
    out = {}
    try:
        from harness.translate import exnflow
        text, info = exnflow.generate()
        out["Skeleton"] = info
    except BaseException as ex:
        text, info = _failed("Skeleton", ex), dict(error=repr(ex))
        out["Skeleton"] = info
    coqrun.write_gen("Skeleton", text)
    os.makedirs(os.path.join(HERE, "build"), exist_ok=True)
    with open(os.path.join(HERE, "build", "skeleton_info.json"), "w") as f:
        json.dump(info, f, indent=1)
    try:
        from harness.translate import wiremap
        wtext, winfo = wiremap.generate()
    except BaseException as ex:
        wtext, winfo = _failed("WireMap", ex), dict(error=repr(ex))
    coqrun.write_gen("WireMap", wtext)
    out["WireMap"] = winfo
    from harness.translate import pure
    try:
        groups = pure.generate()
    except BaseException as ex:
        groups = {g: (_failed("P" + g, ex), dict(error=repr(ex))) for g in pure.GROUPS}
    for g, (ptext, pinfo) in groups.items():
        coqrun.write_gen("P" + g, ptext)
        out["P" + g] = dict(functions=pinfo, stated_over_by=pure.GROUPS[g][1])
    return out


if __name__ == "__main__":
    info = regenerate()
    print("regenerated coq/gen: " + ", ".join("%s" % k for k in info))
