"""Regenerate coq/gen/*.v from /repo/src (written only when the content changed)."""
import json
import os
import sys

HERE = os.path.dirname(os.path.dirname(os.path.dirname(os.path.abspath(__file__))))
sys.path.insert(0, HERE)


def regenerate():
    from harness.lib import coqrun
    from harness.translate import exnflow
    text, info = exnflow.generate()
    coqrun.write_gen("Skeleton", text)
    os.makedirs(os.path.join(HERE, "build"), exist_ok=True)
    with open(os.path.join(HERE, "build", "skeleton_info.json"), "w") as f:
        json.dump(info, f, indent=1)
    out = dict(Skeleton=info)
    try:
        from harness.translate import wiremap
        wtext, winfo = wiremap.generate()
        coqrun.write_gen("WireMap", wtext)
        out["WireMap"] = winfo
    except ImportError:
        pass
    return out


if __name__ == "__main__":
    info = regenerate()
    print("regenerated coq/gen: " + ", ".join("%s" % k for k in info))
