"""Python ast -> ExnFlow skeletons (coq/gen/Skeleton.v), regenerated from /repo/src/deep on every run.

Fail-closed: anything the translator does not understand, and every call or attribute access it cannot
resolve to code of the deep package or to the explicit no-raise whitelist below, becomes an opaque step
`Prim id [EExc; EBase]` (may raise anything).  Calls resolved BY NAME inside the package are inlined (a
call through an attribute is a choice over all same-named definitions), to a fixed depth; beyond it, or
on recursion, the call is opaque."""
import ast
import os

SRC = os.environ.get("VERIF_DEV_SRC", "/repo/src") + "/deep"      # the override is for the seeded-change regression (worktrees) only
BOTH = "[EExc; EBase]"

# ---- the no-raise whitelist (shown in the evidence) ---------------------------------------------
NORAISE_CALLS = {
    # deep.logging / logging: Python's logging swallows handler errors (logging.raiseExceptions only prints)
    "logging.debug", "logging.info", "logging.warning", "logging.error", "logging.exception",
    "deep.logging.debug", "deep.logging.info", "deep.logging.warning", "deep.logging.error", "deep.logging.exception",
    # total builtins on any value
    "len_of_own", "isinstance", "callable", "id", "type",
    "time_ns", "threading.get_ident", "threading.current_thread", "threading.Lock",
}
NORAISE_NAMES = {"isinstance", "callable", "id", "type", "time_ns"}
# methods of built-in containers / strings that the agent creates itself (a same-named method of the deep package is inlined instead)
NORAISE_METHODS = {"append", "extend", "add", "copy", "clear", "items", "keys", "values", "get", "update", "setdefault"}
# names bound to modules: reading an attribute of a module does not raise
MODULES = {"deep", "logging", "os", "sys", "threading", "inspect", "uuid", "abc", "time"}
# context managers that never raise on enter/exit
NORAISE_WITH = {"self.__lock", "self._lock", "self._update_lock"}
MAX_DEPTH = 5
MAX_NODES = 6000


class Index:
    def __init__(self, root=SRC):
        self.funcs = {}        # name -> list of (qualname, FunctionDef, is_property)
        self.classes = {}      # class name -> {method name: FunctionDef}
        self.files = []
        self.data_attrs = set()  # names assigned as self.<name> = ... or at class level somewhere in deep
        for d, _dirs, files in os.walk(root):
            for f in sorted(files):
                if not f.endswith(".py"):
                    continue
                path = os.path.join(d, f)
                rel = os.path.relpath(path, root)
                if rel.startswith(("api/plugin/otel", "api/plugin/metric/", "logging")):
                    continue        # plugin back ends and logging configuration are behind modelled interfaces
                try:
                    tree = ast.parse(open(path).read(), path)
                except SyntaxError:
                    continue
                self.files.append(rel)
                for n in ast.walk(tree):
                    if isinstance(n, (ast.Assign, ast.AnnAssign, ast.AugAssign)):
                        for t in (n.targets if isinstance(n, ast.Assign) else [n.target]):
                            if isinstance(t, ast.Attribute) and isinstance(t.value, ast.Name) and t.value.id == "self":
                                self.data_attrs.add(t.attr)
                for node in tree.body:
                    if isinstance(node, ast.FunctionDef):
                        self.funcs.setdefault(node.name, []).append((rel + ":" + node.name, node, False))
                    elif isinstance(node, ast.ClassDef):
                        self._class(rel, node)

    def _class(self, rel, node):
        methods = self.classes.setdefault(node.name, {})
        for sub in node.body:
            if isinstance(sub, ast.FunctionDef):
                is_prop = any((isinstance(dec, ast.Name) and dec.id == "property") for dec in sub.decorator_list)
                is_setter = any(isinstance(dec, ast.Attribute) and dec.attr == "setter" for dec in sub.decorator_list)
                if is_setter:
                    continue
                abstract = any((isinstance(dec, ast.Attribute) and dec.attr == "abstractmethod") or
                               (isinstance(dec, ast.Name) and dec.id == "abstractmethod") for dec in sub.decorator_list)
                methods[sub.name] = sub
                if not abstract:
                    self.funcs.setdefault(sub.name, []).append(("%s:%s.%s" % (rel, node.name, sub.name), sub, is_prop))
            elif isinstance(sub, ast.ClassDef):
                self._class(rel, sub)

    def properties(self, name):
        return [(q, f) for q, f, p in self.funcs.get(name, []) if p]

    def callables(self, name):
        return [(q, f) for q, f, p in self.funcs.get(name, []) if not p]


class Translator:
    def __init__(self, index):
        self.ix = index
        self.nprim = 0
        self.prims = {}          # id -> description
        self.conds = {}          # source text -> id
        self.nodes = 0
        self.plugin_loops = []   # (name, term)
        self.unknown = []

    # ---------- helpers
    def prim(self, what, raises=BOTH):
        self.nprim += 1
        self.prims[self.nprim] = what
        self.nodes += 1
        return "(Prim %d %s)" % (self.nprim, raises)

    def cond_id(self, node):
        text = ast.unparse(node)
        if text not in self.conds:
            self.conds[text] = len(self.conds) + 1
        return self.conds[text]

    @staticmethod
    def seq(parts):
        parts = [p for p in parts if p and p != "Skip"]
        if not parts:
            return "Skip"
        out = parts[-1]
        for p in reversed(parts[:-1]):
            out = "(Seq %s %s)" % (p, out)
        return out

    def choice(self, alts):
        alts = [a for a in alts]
        if not alts:
            return "Skip"
        out = alts[-1]
        for a in reversed(alts[:-1]):
            out = "(If 0 %s %s)" % (a, out)
        return out

    # ---------- expressions: the resolvable calls are inlined, the rest is lumped into one opaque step
    def expr(self, node, stack, depth):
        if node is None:
            return "Skip"
        opaque, inlined = [], []
        self._walk_expr(node, stack, depth, opaque, inlined)
        parts = []
        if opaque:
            parts.append(self.prim("; ".join(sorted(set(opaque)))[:200]))
        parts += inlined
        return self.seq(parts)

    def _dotted(self, node):
        if isinstance(node, ast.Name):
            return node.id
        if isinstance(node, ast.Attribute):
            base = self._dotted(node.value)
            return None if base is None else base + "." + node.attr
        return None

    @staticmethod
    def _self_rooted(node):
        while isinstance(node, ast.Attribute):
            node = node.value
        return isinstance(node, ast.Name) and node.id == "self"

    def _walk_expr(self, node, stack, depth, opaque, inlined):
        if isinstance(node, (ast.Constant, ast.Name)):
            return
        if isinstance(node, ast.Lambda):
            return                      # defined, not executed here
        if isinstance(node, ast.Call):
            for a in node.args:
                self._walk_expr(a.value if isinstance(a, ast.Starred) else a, stack, depth, opaque, inlined)
            for k in node.keywords:
                self._walk_expr(k.value, stack, depth, opaque, inlined)
            dotted = self._dotted(node.func)
            name = node.func.id if isinstance(node.func, ast.Name) else node.func.attr if isinstance(node.func, ast.Attribute) else None
            if dotted in NORAISE_CALLS or (isinstance(node.func, ast.Name) and name in NORAISE_NAMES):
                return
            if isinstance(node.func, ast.Attribute):
                self._walk_attr_base(node.func, stack, depth, opaque, inlined)
            cands = self.ix.callables(name) if name else []
            if not cands and isinstance(node.func, ast.Attribute) and name in NORAISE_METHODS:
                return
            if isinstance(node.func, ast.Name) and name in self.ix.classes:
                init = self.ix.classes[name].get("__init__")
                cands = [("%s.__init__" % name, init)] if init is not None else []
                if init is None:
                    return
            if cands and depth < MAX_DEPTH and self.nodes < MAX_NODES and not any(q in stack for q, _ in cands):
                alts = [self.inline(q, f, stack, depth) for q, f in cands]
                if isinstance(node.func, ast.Attribute) and not self._self_rooted(node.func.value):
                    # open world: the receiver may be a plugin / host object overriding the method
                    alts.append(self.prim("call .%s of an object that may not be the agent's" % name))
                inlined.append(self.choice(alts))
            else:
                opaque.append("call %s" % (dotted or name or ast.unparse(node.func)[:40]))
            return
        if isinstance(node, ast.Attribute):
            self._walk_attr_base(node, stack, depth, opaque, inlined)
            props = self.ix.properties(node.attr)
            rooted = self._self_rooted(node.value)
            dunder = node.attr.startswith("__") and node.attr.endswith("__")
            if props and depth < MAX_DEPTH and self.nodes < MAX_NODES and not any(q in stack for q, _ in props):
                alts = [self.inline(q, f, stack, depth) for q, f in props]
                if not rooted:
                    alts.append(self.prim("attribute .%s of an object that may not be the agent's" % node.attr))
                inlined.append(self.choice(alts))
            elif props:
                opaque.append("property .%s (inlining depth exhausted)" % node.attr)
            elif dunder or not (rooted or node.attr in self.ix.data_attrs or node.attr.startswith("_" )):
                # __dict__, __class__ ... of a host value, or an attribute no class of the agent defines
                opaque.append("attribute .%s" % node.attr)
            return
        if isinstance(node, (ast.ListComp, ast.SetComp, ast.GeneratorExp, ast.DictComp)):
            opaque.append("comprehension")
            for child in ast.iter_child_nodes(node):
                if isinstance(child, ast.comprehension):
                    self._walk_expr(child.iter, stack, depth, opaque, inlined)
                    for c in child.ifs:
                        self._walk_expr(c, stack, depth, opaque, inlined)
                else:
                    self._walk_expr(child, stack, depth, opaque, inlined)
            return
        if isinstance(node, (ast.Subscript, ast.BinOp, ast.UnaryOp, ast.Compare, ast.BoolOp, ast.IfExp, ast.JoinedStr, ast.FormattedValue,
                             ast.Tuple, ast.List, ast.Dict, ast.Set, ast.Starred, ast.Slice, ast.NamedExpr)):
            quiet_not = isinstance(node, ast.UnaryOp) and isinstance(node.op, ast.Not) and (
                isinstance(node.operand, ast.Name) or self._self_rooted(node.operand))
            identity_test = isinstance(node, ast.Compare) and all(isinstance(o, (ast.Is, ast.IsNot)) for o in node.ops)   # runs no user code
            if isinstance(node, (ast.Subscript, ast.BinOp, ast.Compare, ast.JoinedStr, ast.FormattedValue, ast.UnaryOp)) and not quiet_not \
                    and not identity_test:
                opaque.append(type(node).__name__.lower())      # __getitem__, __add__, __eq__, __format__ of host values may raise
            for child in ast.iter_child_nodes(node):
                if isinstance(child, ast.expr):
                    self._walk_expr(child, stack, depth, opaque, inlined)
            return
        if isinstance(node, (ast.Yield, ast.YieldFrom, ast.Await)):
            opaque.append("yield")
            for child in ast.iter_child_nodes(node):
                if isinstance(child, ast.expr):
                    self._walk_expr(child, stack, depth, opaque, inlined)
            return
        self.unknown.append(type(node).__name__)
        opaque.append("unknown expression form %s" % type(node).__name__)

    def _walk_attr_base(self, attr, stack, depth, opaque, inlined):
        root = attr.value
        while isinstance(root, ast.Attribute):
            root = root.value
        if isinstance(root, ast.Name) and root.id in MODULES:
            return
        if not (isinstance(attr.value, ast.Name)):
            self._walk_expr(attr.value, stack, depth, opaque, inlined)

    # ---------- calls
    def always_returns(self, body):
        if not body:
            return False
        last = body[-1]
        if isinstance(last, (ast.Return, ast.Raise)):
            return True
        if isinstance(last, ast.If):
            return self.always_returns(last.body) and self.always_returns(last.orelse)
        if isinstance(last, ast.Try):
            return self.always_returns(last.body) and all(self.always_returns(h.body) for h in last.handlers) and not last.orelse
        if isinstance(last, ast.With):
            return self.always_returns(last.body)
        return False

    def inline(self, qual, fdef, stack, depth, tail=False):
        body = self.stmts(fdef.body, stack + [qual], depth + 1)
        if tail:
            # the callee's returns are the caller's; falling off its end returns None
            return body if self.always_returns(fdef.body) else self.seq([body, "(Ret 0)"])
        return "(Call %s)" % body

    # ---------- statements
    def stmts(self, body, stack, depth):
        return self.seq([self.stmt(s, stack, depth) for s in body])

    def ret_tag(self, value):
        if value is None or (isinstance(value, ast.Constant) and value.value is None):
            return 0
        if ast.unparse(value) == "self.trace_call":
            return 1
        return 2

    def handler_cls(self, h):
        if h.type is None:
            return "HBase"
        names = [ast.unparse(e) for e in (h.type.elts if isinstance(h.type, ast.Tuple) else [h.type])]
        if "BaseException" in names:
            return "HBase"
        if "Exception" in names:
            return "HExc"
        return "HSome"

    def stmt(self, s, stack, depth):
        self.nodes += 1
        if isinstance(s, (ast.FunctionDef, ast.ClassDef, ast.Pass, ast.Global, ast.Nonlocal, ast.Import, ast.ImportFrom)):
            return "Skip" if not isinstance(s, (ast.Import, ast.ImportFrom)) else self.prim("import")
        if isinstance(s, ast.Expr):
            if isinstance(s.value, ast.Constant):
                return "Skip"
            return self.expr(s.value, stack, depth)
        if isinstance(s, (ast.Assign, ast.AnnAssign, ast.AugAssign)):
            targets = s.targets if isinstance(s, ast.Assign) else [s.target]
            parts = [self.expr(s.value, stack, depth)] if s.value is not None else []
            for t in targets:
                if isinstance(t, (ast.Subscript,)) or (isinstance(t, ast.Attribute) and not (isinstance(t.value, ast.Name) and t.value.id == "self")):
                    parts.append(self.prim("store to %s" % ast.unparse(t)[:60]))
            if isinstance(s, ast.AugAssign):
                parts.append(self.prim("augmented assignment"))
            return self.seq(parts)
        if isinstance(s, ast.Return):
            v = s.value
            if isinstance(v, ast.Call):
                name = v.func.id if isinstance(v.func, ast.Name) else v.func.attr if isinstance(v.func, ast.Attribute) else None
                cands = self.ix.callables(name) if name else []
                if cands and depth < MAX_DEPTH and not any(q in stack for q, _ in cands):
                    args = [self.expr(a, stack, depth) for a in v.args] + [self.expr(k.value, stack, depth) for k in v.keywords]
                    # a tail call: the callee's return values are the caller's
                    return self.seq(args + [self.choice([self.inline(q, f, stack, depth, tail=True) for q, f in cands])])
            return self.seq([self.expr(v, stack, depth), "(Ret %d)" % self.ret_tag(v)])
        if isinstance(s, ast.Raise):
            return self.seq([self.expr(s.exc, stack, depth), self.prim("raise", BOTH), self.prim("raise (no fall-through)", BOTH)])
        if isinstance(s, ast.If):
            return self.seq([self.expr(s.test, stack, depth),
                             "(If %d %s %s)" % (self.cond_id(s.test), self.stmts(s.body, stack, depth), self.stmts(s.orelse, stack, depth))])
        if isinstance(s, (ast.For, ast.While)):
            head = self.expr(s.iter if isinstance(s, ast.For) else s.test, stack, depth)
            body = self.stmts(s.body, stack, depth)
            if isinstance(s, ast.For):
                it = ast.unparse(s.iter)
                if any(k in it for k in ("resource_providers", "snapshot_decorators", "span_processors", "metric_processors",
                                         "config.plugins", "__spans", "__callbacks", "__results", "listeners_copy")) or \
                        (isinstance(s.iter, (ast.List, ast.Tuple)) and stack and stack[-1].endswith("Deep.shutdown")):
                    self.plugin_loops.append(("%s: for %s in %s" % (stack[-1] if stack else "?", ast.unparse(s.target), it), body))
            # the iteration step itself: silent for a literal, a local name or an attribute chain rooted at self (a
            # generator PROPERTY of the agent has been inlined into the head above); opaque otherwise
            quiet = isinstance(s, ast.For) and (isinstance(s.iter, (ast.List, ast.Tuple, ast.Name)) or
                                                (isinstance(s.iter, ast.Attribute) and self._self_rooted(s.iter)))
            step = "Skip" if quiet else self.prim("next element of %s" % (ast.unparse(s.iter)[:60] if isinstance(s, ast.For) else "loop test"))
            loop = "(Loop %s)" % self.seq([step, body])
            return self.seq([head, loop, self.stmts(s.orelse, stack, depth)])
        if isinstance(s, ast.Try):
            body = self.stmts(s.body, stack, depth)
            if s.orelse:
                body = self.seq([body, self.prim("try/else (not modelled: opaque)")])
            hs = "[%s]" % "; ".join("(%s, %s)" % (self.handler_cls(h), self.stmts(h.body, stack, depth)) for h in s.handlers)
            t = "(Try %s %s)" % (body, hs) if s.handlers else body
            if s.finalbody:
                t = "(Finally %s %s)" % (t, self.stmts(s.finalbody, stack, depth))
            return t
        if isinstance(s, ast.With):
            parts, exits = [], []
            for item in s.items:
                ce = item.context_expr
                text = ast.unparse(ce)
                if text in NORAISE_WITH:
                    continue
                parts.append(self.expr(ce, stack, depth))
                # __enter__/__exit__ of the deep classes, by name; a context manager of unknown class is opaque
                enters, exits_ = self.ix.callables("__enter__"), self.ix.callables("__exit__")
                swallow = any(isinstance(n, ast.Return) and n.value is not None and not (isinstance(n.value, ast.Constant) and n.value.value in (None, False))
                              for _q, f in exits_ for n in ast.walk(f))
                if swallow or depth >= MAX_DEPTH:
                    parts.append(self.prim("enter %s" % text[:50]))
                    exits.append(self.prim("exit %s" % text[:50]))
                else:
                    parts.append(self.choice([self.inline(q, f, stack, depth) for q, f in enters] + [self.prim("enter of another context manager")]))
                    exits.append(self.choice([self.inline(q, f, stack, depth) for q, f in exits_] + [self.prim("exit of another context manager")]))
            body = self.stmts(s.body, stack, depth)
            for e in reversed(exits):
                body = "(Finally %s %s)" % (body, e)
            return self.seq(parts + [body])
        if isinstance(s, ast.Break):
            return "Brk"
        if isinstance(s, ast.Continue):
            return "Cont"
        if isinstance(s, ast.Delete):
            return self.prim("del")
        if isinstance(s, ast.Assert):
            return self.prim("assert")
        self.unknown.append(type(s).__name__)
        return self.prim("unknown statement form %s" % type(s).__name__)


def find(ix, cls, name):
    return ix.classes[cls][name]


def generate():
    """Returns (coq text, info dict)."""
    ix = Index()
    tr = Translator(ix)
    out = ["(* GENERATED by harness/translate/exnflow.py from /repo/src/deep -- do not edit *)",
           "From Deep Require Import ExnFlow.", "From Coq Require Import List.", "Import ListNotations.", ""]
    info = dict(files=ix.files, defs={})

    def emit(name, cls, meth):
        try:
            fdef = find(ix, cls, meth)
        except KeyError:
            out.append("(* %s.%s not found in the source: the theorems about %s cannot be stated *)" % (cls, meth, name))
            info["defs"][name] = "MISSING"
            return
        tr.nodes = 0
        term = tr.stmts(fdef.body, ["%s.%s" % (cls, meth)], 0)
        out.append("Definition %s : stmt :=\n  %s." % (name, term))
        info["defs"][name] = len(term)
    emit("skel_trace_call", "TriggerHandler", "trace_call")
    emit("skel_deep_shutdown", "Deep", "shutdown")
    # the loops over plugins / callbacks / results met while translating the above, plus the decorators' and listeners' loops
    for cls, meth in (("Deep", "start"), ("DeferredSnapshotActionResult", "_decorate_snapshot"), ("SpanActionCallback", "process"),
                      ("SpanActionContext", "_process_action"), ("MetricActionContext", "_process_action"),
                      ("CallbackContext", "process"), ("TriggerContext", "__exit__"), ("TracepointConfigService", "update_listeners")):
        try:
            tr.nodes = 0
            tr.stmts(find(ix, cls, meth).body, ["%s.%s" % (cls, meth)], 0)
        except KeyError:
            pass
    seen, loops = set(), []
    for name, body in tr.plugin_loops:
        key = name.split(":")[-2].split("/")[-1] + ":" + name.split(":")[-1] if name.count(":") >= 2 else name
        key = name[name.rfind(".py:") + 4:] if ".py:" in name else name
        if key in seen:
            continue
        seen.add(key)
        loops.append((key, body))
    for k, (name, body) in enumerate(loops):
        out.append("(* %s *)\nDefinition loop_body_%d : stmt :=\n  %s." % (name, k, body))
    out.append("Definition plugin_loop_bodies : list stmt := [%s]." % "; ".join("loop_body_%d" % k for k in range(len(loops))))
    out.append("(* the loops of Deep.shutdown: its fixed steps (hooks, drain, stop polling) and its plugins *)")
    out.append("Definition shutdown_loop_bodies : list stmt := [%s]." % "; ".join(
        "loop_body_%d" % k for k, (name, _b) in enumerate(loops) if name.startswith("Deep.shutdown")))
    inert = tr.conds.get("self.__inert")
    noconf = tr.conds.get("len(self._tp_config) == 0")
    out.append("Definition cond_inert : nat := %d." % (inert or 0))
    out.append("Definition cond_no_tracepoints : nat := %d." % (noconf or 0))
    info.update(prims=len(tr.prims), conditions=len(tr.conds), plugin_loops=[n for n, _ in loops], unknown_forms=sorted(set(tr.unknown)),
                whitelist=sorted(NORAISE_CALLS | NORAISE_NAMES | NORAISE_WITH | {'.' + m + '()' for m in NORAISE_METHODS} | {'module ' + m for m in MODULES}), cond_inert=inert, cond_no_tracepoints=noconf,
                prim_table=dict(tr.prims))
    return "\n".join(out) + "\n", info


if __name__ == "__main__":
    text, info = generate()
    print(text[:3000])
    print({k: v for k, v in info.items() if k != "prim_table"})
