"""Regenerate coq/gen/Pure.v from /repo/src: the small PURE decision functions of the agent (rate limits, time
window, location matching, string cut, truth words, budget test, name modifiers) translated statement by
statement into Gallina, so that coq/theories/PureTie.v can prove, on every run, that each one IS the function
the hand-written model uses (`forall arguments, generated = model`).

The translator is fail-closed: any statement or expression outside the fragment below raises Unsupported and
the obligation is reported broken.  Fragment:
  statements   docstring | return e | if/elif/else | x = e | self.attr = e / self.attr += e (declared state) |
               declared mutating call as a statement | `with <declared lock>:` (atomicity is modelled elsewhere)
  expressions  int / bool / str / None constants, declared names and attribute paths, declared calls,
               + - * on integers, unary -, not / and / or on booleans, == != < <= > >= (chains) on integers,
               == != on strings, `is None` / `is not None`, `x in (<str constants>)`, len(s), s[:n],
               s.startswith(<const>), str(<str>).lower(), tuples, lists of str constants
Python integers are unbounded (Z); strings are lists of code points; `.lower()` is the model's ASCII lower
(Config.lower) - an assumption recorded in the generated file.
"""
import ast
import os

SRC = os.environ.get("VERIF_DEV_SRC", "/repo/src") + "/deep"      # the override is for development only


class Unsupported(Exception):
    pass


class _FactsReset:
    """marker statement: from here on only these facts hold"""

    def __init__(self, facts):
        self.facts = facts


def s_lit(text):
    return "[" + "; ".join(str(ord(c)) for c in text) + "]" if text else "[]"


def dotted(node):
    """a.b.c for Name/Attribute chains (a.b().c when a link is a call without arguments), else None."""
    parts = []
    while True:
        if isinstance(node, ast.Attribute):
            parts.append(node.attr)
            node = node.value
        elif isinstance(node, ast.Call) and not node.args and not node.keywords and isinstance(node.func, ast.Attribute) and parts:
            parts.append(node.func.attr + "()")
            node = node.func.value
        else:
            break
    if isinstance(node, ast.Name):
        parts.append(node.id)
        return ".".join(reversed(parts))
    return None


def dotted_or_super(f):
    """dotted name of a callee; `super().m` for a method of the base class"""
    pat = dotted(f)
    if pat is None and isinstance(f, ast.Attribute) and isinstance(f.value, ast.Call) and dotted(f.value.func) == "super" \
            and not f.value.args and not f.value.keywords:
        pat = "super()." + f.attr
    return pat


def load_constants(paths):
    """NAME = 'text' and NAME = [NAME, ...] assignments of the given modules."""
    out = {}
    for path in paths:
        tree = ast.parse(open(os.path.join(SRC, path)).read())
        for n in tree.body:
            if isinstance(n, ast.Assign) and len(n.targets) == 1 and isinstance(n.targets[0], ast.Name):
                v = n.value
                if isinstance(v, ast.Constant) and isinstance(v.value, str):
                    out[n.targets[0].id] = (s_lit(v.value), "str")
                elif isinstance(v, ast.List) and all(isinstance(e, ast.Name) and e.id in out for e in v.elts):
                    out[n.targets[0].id] = ("[" + "; ".join(out[e.id][0] for e in v.elts) + "]", "list str")
                elif isinstance(v, ast.List) and v.elts and all(isinstance(e, ast.Constant) and isinstance(e.value, str) for e in v.elts):
                    out[n.targets[0].id] = ("[" + "; ".join(s_lit(e.value) for e in v.elts) + "]", "list str")
            elif isinstance(n, ast.AugAssign) and isinstance(n.op, ast.Add) and isinstance(n.target, ast.Name) and isinstance(n.value, ast.Name) \
                    and n.target.id in out and n.value.id in out and out[n.target.id][1] == out[n.value.id][1] == "list str":
                # NAME += OTHER at module level: the list every later reader sees
                out[n.target.id] = ("(%s ++ %s)" % (out[n.target.id][0], out[n.value.id][0]), "list str")
            elif isinstance(n, (ast.AugAssign, ast.Assign, ast.AnnAssign, ast.Delete)):
                for t in ([n.target] if not isinstance(n, (ast.Assign, ast.Delete)) else n.targets):
                    if isinstance(t, ast.Name):
                        out.pop(t.id, None)          # assigned in a way that is not understood: not a known constant
    return out


class Fn:
    def __init__(self, spec):
        self.spec = spec
        self.env = dict(spec.get("env", {}))            # pattern -> (coq term, type)
        self.calls = spec.get("calls", {})               # pattern -> (coq head, [arg types], result type)
        self.state = dict(spec.get("state", {}))         # pattern -> (current coq term, type): assignable attributes
        self.state_order = list(spec.get("state", {}))
        self.stmt_calls = spec.get("stmt_calls", {})     # pattern -> dict(fn=template, updates=[state patterns])
        self.locks = spec.get("locks", [])
        self.fresh = 0
        self.notes = []
        self.consts = load_constants(spec.get("constants", []))
        self.facts = set()                               # (args term, key term): the key is known to be present

    # ------------------------------------------------------------------ expressions
    def expr(self, e):
        if self.spec.get("opaque_exprs"):
            try:
                src_ = ast.unparse(e)
            except Exception:
                src_ = None
            if src_ in self.spec["opaque_exprs"]:
                term_, ty_ = self.spec["opaque_exprs"][src_]
                self.notes.append("`%s` is declared: %s" % (src_, term_))
                return self.subst(term_), ty_
        if isinstance(e, ast.Constant):
            v = e.value
            if v is True or v is False:
                return ("true" if v else "false"), "bool"
            if v is None:
                return "None", "none"
            if isinstance(v, int):
                return "(%d)" % v, "Z"
            if isinstance(v, str):
                return s_lit(v), "str"
            raise Unsupported("constant %r" % (v,))
        pat = dotted(e)
        if pat is not None:
            if pat in self.state:
                return self.state[pat]
            if pat in self.env:
                term, ty = self.env[pat]
                return (self.subst(term) if "{" in term else term), ty
            if pat in self.consts:
                return self.consts[pat]
            raise Unsupported("undeclared name %s" % pat)
        if isinstance(e, ast.UnaryOp):
            if isinstance(e.op, ast.USub) and isinstance(e.operand, ast.Constant) and type(e.operand.value) is int:
                return "(-%d)" % e.operand.value, "Z"
            t, ty = self.expr(e.operand)
            if isinstance(e.op, ast.Not):
                return "(negb %s)" % self.truth(t, ty), "bool"
            if isinstance(e.op, ast.USub) and ty == "Z":
                return "(- %s)" % t, "Z"
            raise Unsupported("unary %s on %s" % (type(e.op).__name__, ty))
        if isinstance(e, ast.BinOp):
            a, ta = self.expr(e.left)
            b, tb = self.expr(e.right)
            ops = {ast.Add: "+", ast.Sub: "-", ast.Mult: "*"}
            if type(e.op) in ops and ta == tb == "Z":
                return "(%s %s %s)" % (a, ops[type(e.op)], b), "Z"
            if isinstance(e.op, ast.Add) and ta == tb and (ta in ("cfg", "str") or ta.startswith("list ")):
                return "(%s ++ %s)" % (a, b), ta
            raise Unsupported("binary %s on %s, %s" % (type(e.op).__name__, ta, tb))
        if isinstance(e, ast.BoolOp):
            nar = self.none_test(e.values[0])
            if nar is not None and len(e.values) >= 2 and ((isinstance(e.op, ast.Or) and nar[1]) or (isinstance(e.op, ast.And) and not nar[1])):
                # `x is None or REST` / `x is not None and REST`: REST is evaluated only when x holds a value
                pat, _is, inner = nar
                v = self.new("some_")
                saved = dict(self.env)
                self.env[pat] = (v, inner)
                rest_node = e.values[1] if len(e.values) == 2 else ast.BoolOp(op=e.op, values=e.values[1:])
                r, tr = self.expr(rest_node)
                self.env = saved
                if tr != "bool":
                    raise Unsupported("and/or on a non-boolean operand (%s)" % tr)
                return "(match %s with None => %s | Some %s => %s end)" % (
                    self.env[pat][0], "true" if isinstance(e.op, ast.Or) else "false", v, r), "bool"
            parts = []
            saved_facts = set(self.facts)
            for v in e.values:
                t, ty = self.expr(v)
                if ty != "bool":
                    raise Unsupported("and/or on a non-boolean operand (%s)" % ty)
                parts.append(t)
                self.facts |= self.facts_of(v, isinstance(e.op, ast.And))     # later operands run only if this one was true (and) / false (or)
            self.facts = saved_facts
            op = " && " if isinstance(e.op, ast.And) else " || "
            return "(" + op.join(parts) + ")", "bool"
        if isinstance(e, ast.Compare):
            ods = self.spec.get("odicts", {})
            terms = [self.expr(e.left)] + [("<odict>", "odict") if dotted(c) in ods else self.expr(c) for c in e.comparators]
            outs = []
            for i, op in enumerate(e.ops):
                outs.append(self.compare(op, terms[i], terms[i + 1], e.comparators[i]))
            return ("(" + " && ".join(outs) + ")" if len(outs) > 1 else outs[0]), "bool"
        if isinstance(e, ast.Tuple):
            parts = [self.expr(x) for x in e.elts]
            return "(" + ", ".join(p for p, _ in parts) + ")", "(" + " * ".join(t for _, t in parts) + ")"
        if isinstance(e, ast.List):
            parts = [self.expr(x) for x in e.elts]
            tys = {t for _, t in parts}
            if len(tys) > 1:
                raise Unsupported("list of values of different types")
            return "[" + "; ".join(p for p, _ in parts) + "]", "list " + (tys.pop() if tys else "str")
        if isinstance(e, ast.Dict):
            items = []
            for k, v in zip(e.keys, e.values):
                kt, kty = self.expr(k)
                vt, vty = self.expr(v)
                if kty != "str":
                    raise Unsupported("dict key of type %s" % kty)
                wrap = {"str": "DStr %s", "option str": "DOpt %s", "none": "DOpt %s", "list str": "DList %s", "metrics": "DMetrics %s"}.get(vty)
                if wrap is None:
                    raise Unsupported("dict value of type %s" % vty)
                items.append("(%s, %s)" % (kt, wrap % vt))
            return "[" + "; ".join(items) + "]", "dict"
        if isinstance(e, ast.ListComp) and len(e.generators) == 1 and isinstance(e.elt, ast.Name):
            g = e.generators[0]
            if isinstance(g.target, ast.Name) and g.target.id == e.elt.id and not g.is_async and len(g.ifs) == 1 and isinstance(g.iter, ast.List):
                t = g.ifs[0]
                if isinstance(t, ast.Compare) and len(t.ops) == 1 and isinstance(t.ops[0], ast.IsNot) and dotted(t.left) == e.elt.id \
                        and isinstance(t.comparators[0], ast.Constant) and t.comparators[0].value is None:
                    parts = [self.expr(x) for x in g.iter.elts]
                    tys = {ty for _, ty in parts}
                    if len(tys) == 1 and list(tys)[0].startswith("option "):
                        return "(cat_options [%s])" % "; ".join(p for p, _ in parts), "list " + list(tys)[0][len("option "):]
            raise Unsupported("list comprehension")
        if isinstance(e, ast.Subscript) and self.expr(e.value)[1] == "args":
            base, _tb = self.expr(e.value)
            k, tk = self.expr(e.slice)
            if tk == "str" and (base, k) in self.facts:
                return "(aget %s %s)" % (base, k), "str"
            raise Unsupported("args[%s] where the key is not known to be present" % k)
        if isinstance(e, ast.Subscript):
            base, tb = self.expr(e.value)
            sl = e.slice
            if tb == "str" and isinstance(sl, ast.Slice) and sl.lower is None and sl.step is None and sl.upper is not None:
                n, tn = self.expr(sl.upper)
                if tn == "Z":
                    return "(py_slice_to %s %s)" % (base, n), "str"
            if tb == "str" and isinstance(sl, ast.Slice) and sl.upper is None and sl.step is None and sl.lower is not None:
                n, tn = self.expr(sl.lower)
                if tn == "Z":
                    return "(py_slice_from %s %s)" % (base, n), "str"
            raise Unsupported("subscript")
        if isinstance(e, ast.Call):
            return self.call(e)
        if isinstance(e, ast.IfExp):
            c, tc = self.expr(e.test)
            if c == "true":
                return self.expr(e.body)
            if c == "false":
                return self.expr(e.orelse)
            saved_facts = set(self.facts)
            self.facts |= self.facts_of(e.test, True)
            a, ta = self.expr(e.body)
            self.facts = saved_facts | self.facts_of(e.test, False)
            b, tb = self.expr(e.orelse)
            self.facts = saved_facts
            ty = self.join(ta, tb)
            return "(if %s then %s else %s)" % (self.truth(c, tc), self.coerce(a, ta, ty), self.coerce(b, tb, ty)), ty
        raise Unsupported("expression %s" % type(e).__name__)

    def coerce_to(self, node, v, tv, want):
        """Fit a returned value to the declared result type (None / a plain value where an option is declared)."""
        if tv == want:
            return v
        if isinstance(node, ast.Tuple) and want.startswith("(") and " * " in want:
            wants = want[1:-1].split(" * ")
            if len(wants) == len(node.elts):
                parts = []
                for el, w in zip(node.elts, wants):
                    t, ty = self.expr(el)
                    parts.append(self.coerce(t, ty, w))
                return "(" + ", ".join(parts) + ")"
        return self.coerce(v, tv, want)

    @staticmethod
    def join(ta, tb):
        if ta == tb:
            return ta
        if ta == "none" and not tb.startswith("option "):
            return "option " + tb
        if tb == "none" and not ta.startswith("option "):
            return "option " + ta
        if ta == "none":
            return tb
        if tb == "none":
            return ta
        if ta == "option " + tb:
            return ta
        if tb == "option " + ta:
            return tb
        raise Unsupported("branches of types %s and %s" % (ta, tb))

    @staticmethod
    def coerce(t, ty, want):
        if ty == want or ty == "none":
            return t
        if want == "option " + ty:
            return "(Some %s)" % t
        if ty == "str" and want == "cv":
            return "(VText %s)" % t
        if ty == "str" and want == "option cv":
            return "(Some (VText %s))" % t
        raise Unsupported("cannot use a %s as %s" % (ty, want))

    def facts_of(self, node, positive):
        """Keys known to be present in an args map when `node` is true (positive) / false (not positive)."""
        if isinstance(node, ast.Compare) and len(node.ops) == 1 and isinstance(node.ops[0], (ast.In, ast.NotIn)) \
                and dotted(node.comparators[0]) in self.spec.get("odicts", {}):
            sp = self.spec["odicts"][dotted(node.comparators[0])]
            try:
                saved = list(self.notes)
                k, tk = self.expr(node.left)
                self.notes = saved
            except Unsupported:
                return set()
            if tk == "str" and isinstance(node.ops[0], ast.In) == positive:
                return {(self.state[sp][0], k)}
            return set()
        if isinstance(node, ast.Compare) and len(node.ops) == 1 and isinstance(node.ops[0], (ast.In, ast.NotIn)):
            try:
                saved = list(self.notes)
                a, ta = self.expr(node.comparators[0])
                k, tk = self.expr(node.left)
                self.notes = saved
            except Unsupported:
                return set()
            if ta == "args" and tk == "str" and isinstance(node.ops[0], ast.In) == positive:
                return {(a, k)}
            return set()
        if isinstance(node, ast.UnaryOp) and isinstance(node.op, ast.Not):
            return self.facts_of(node.operand, not positive)
        if isinstance(node, ast.BoolOp) and isinstance(node.op, ast.And) == positive:
            out = set()
            for v in node.values:
                out |= self.facts_of(v, positive)
            return out
        return set()

    def none_test(self, node):
        """(pattern, is_none?, inner type) for `x is None` / `x is not None` on a declared option value."""
        if isinstance(node, ast.Compare) and len(node.ops) == 1 and isinstance(node.ops[0], (ast.Is, ast.IsNot)) \
                and isinstance(node.comparators[0], ast.Constant) and node.comparators[0].value is None:
            pat = dotted(node.left)
            if pat in self.env and self.env[pat][1].startswith("option "):
                return pat, isinstance(node.ops[0], ast.Is), self.env[pat][1][len("option "):]
        return None

    def truth(self, t, ty):
        if ty == "bool":
            return t
        raise Unsupported("truth value of a %s" % ty)

    def compare(self, op, a, b, bnode):
        (x, tx), (y, ty) = a, b
        if isinstance(op, (ast.Is, ast.IsNot)) and ty == "none":
            # `x is None` on a value declared never to be None is statically decided (the declaration is an assumption)
            if tx in ("Z", "str", "bool", "metrics", "handler"):
                self.notes.append("`%s is None` decided statically: declared %s" % (x, tx))
                return "false" if isinstance(op, ast.Is) else "true"
            if tx.startswith("option"):
                r = "match %s with None => true | Some _ => false end" % x
                return "(%s)" % r if isinstance(op, ast.Is) else "(negb (%s))" % r
            raise Unsupported("is None on %s" % tx)
        if isinstance(op, (ast.In, ast.NotIn)) and dotted(bnode) in self.spec.get("odicts", {}):
            sp = self.spec["odicts"][dotted(bnode)]
            if tx == "str":
                r = "(inb %s %s)" % (x, self.state[sp][0])
                return r if isinstance(op, ast.In) else "(negb %s)" % r
        if isinstance(op, (ast.In, ast.NotIn)):
            if tx == "str" and isinstance(bnode, (ast.Tuple, ast.List)) and all(isinstance(c, ast.Constant) and isinstance(c.value, str) for c in bnode.elts):
                r = "(existsb (str_eqb %s) [%s])" % (x, "; ".join(s_lit(c.value) for c in bnode.elts))
                return r if isinstance(op, ast.In) else "(negb %s)" % r
            if tx == "str" and ty == "args":
                r = "(has %s %s)" % (y, x)
                return r if isinstance(op, ast.In) else "(negb %s)" % r
            if tx == "str" and ty == "list str":
                r = "(existsb (str_eqb %s) %s)" % (x, y)
                return r if isinstance(op, ast.In) else "(negb %s)" % r
            raise Unsupported("in on %s" % tx)
        if tx == ty == "Z":
            m = {ast.Eq: "(%s =? %s)", ast.NotEq: "(negb (%s =? %s))", ast.Lt: "(%s <? %s)", ast.LtE: "(%s <=? %s)",
                 ast.Gt: "(%s >? %s)", ast.GtE: "(%s >=? %s)"}
            if type(op) in m:
                return m[type(op)] % (x, y)
        if tx == ty == "nat":
            if isinstance(op, ast.Eq):
                return "(Nat.eqb %s %s)" % (x, y)
            if isinstance(op, ast.NotEq):
                return "(negb (Nat.eqb %s %s))" % (x, y)
        if tx == ty == "str":
            if isinstance(op, ast.Eq):
                return "(str_eqb %s %s)" % (x, y)
            if isinstance(op, ast.NotEq):
                return "(negb (str_eqb %s %s))" % (x, y)
        raise Unsupported("comparison %s on %s, %s" % (type(op).__name__, tx, ty))

    def call(self, e):
        f = e.func
        pat = dotted(f)
        if e.keywords and pat in self.spec.get("kwcalls", {}) and all(k.arg is not None for k in e.keywords):
            # a declared constructor called with keywords (after positional arguments): the arguments in the declared order
            head, names, argtys, rty = self.spec["kwcalls"][pat]
            given = {k.arg: k.value for k in e.keywords}
            if len(e.args) > len(names) or any(n in given for n in names[:len(e.args)]):
                raise Unsupported("call %s: positional and keyword arguments overlap" % pat)
            given.update(zip(names, e.args))
            if sorted(given) != sorted(names):
                raise Unsupported("call %s with keywords %s" % (pat, sorted(given)))
            args = [self.expr(given[n]) for n in names]
            args = [self.coerce(a, t, w) for (a, t), w in zip(args, argtys)]
            return "(" + " ".join([self.subst(head)] + args) + ")", rty
        if e.keywords:
            raise Unsupported("keyword arguments")
        if pat is None and isinstance(f, ast.Attribute) and isinstance(f.value, ast.Call) and dotted(f.value.func) == "super" \
                and not f.value.args and not f.value.keywords:
            pat = "super()." + f.attr
        if pat == "hasattr" and len(e.args) == 2 and isinstance(e.args[1], ast.Constant) \
                and [dotted(e.args[0]), e.args[1].value] in self.spec.get("has_attrs", []):
            self.notes.append("hasattr(%s, %r) is declared true (CPython >= 3.10)" % (dotted(e.args[0]), e.args[1].value))
            return "true", "bool"
        if pat is not None and pat in self.calls:
            head, argtys, rty = self.calls[pat]
            args = [self.expr(a) for a in e.args]
            if len(args) != len(argtys):
                raise Unsupported("call %s with %d arguments" % (pat, len(args)))
            args = [(self.coerce(a, t, w), w) for (a, t), w in zip(args, argtys)]
            head = self.subst(head)
            return "(" + " ".join([head] + [a for a, _ in args]) + ")", rty
        if isinstance(f, ast.Name) and f.id == "getattr" and len(e.args) == 3 and dotted(e.args[0]) == "self" \
                and isinstance(e.args[1], ast.Constant) and isinstance(e.args[1].value, str):
            pat2 = "self." + e.args[1].value
            if pat2 in self.env:
                self.notes.append("getattr(self, %r, default): the attribute is declared present" % e.args[1].value)
                return self.env[pat2]
        if isinstance(f, ast.Name) and f.id == "len" and len(e.args) == 1 and dotted(e.args[0]) in self.spec.get("odicts", {}):
            sp = self.spec["odicts"][dotted(e.args[0])]
            return "(Z.of_nat (length %s))" % self.state[sp][0], "Z"
        if isinstance(f, ast.Name) and f.id == "len" and len(e.args) == 1:
            a, ta = self.expr(e.args[0])
            if ta == "str":
                return "(Z.of_nat (length %s))" % a, "Z"
            if ta == "metrics":
                return "(Z.of_nat %s)" % a, "Z"
            if ta.startswith("list "):
                return "(Z.of_nat (length %s))" % a, "Z"
        if isinstance(f, ast.Attribute) and f.attr == "get" and len(e.args) == 2 and dotted(f.value) in self.env \
                and self.env[dotted(f.value)][1] == "config":
            k, tk = self.expr(e.args[0])
            d, td = self.expr(e.args[1])
            if tk == "str" and td == "Z":
                return "(cfg_get %s %s %s)" % (self.env[dotted(f.value)][0], k, d), "argv"
        if isinstance(f, ast.Attribute) and f.attr == "get" and len(e.args) == 2 and self.expr(f.value)[1] == "args":
            a, _ta = self.expr(f.value)
            k, tk = self.expr(e.args[0])
            d, td = self.expr(e.args[1])
            if tk == "str" and td == "str":
                return "(get_or %s %s %s)" % (a, k, d), "str"
            if tk == "str" and td == "none":
                return "(alookup %s %s)" % (k, a), "option str"
        if isinstance(f, ast.Name) and f.id == "str" and len(e.args) == 1 and self.expr(e.args[0])[1] == "nat":
            self.notes.append("str(x) of an opaque token (a uuid handle, the id() of an object) is the token")
            return self.expr(e.args[0])
        if isinstance(f, ast.Name) and f.id == "tuple" and len(e.args) == 1 and self.expr(e.args[0])[1].startswith("list "):
            self.notes.append("tuple(x) of a value declared a sequence is its elements in order (a snapshot of them)")
            return self.expr(e.args[0])
        if isinstance(f, ast.Name) and f.id == "str" and len(e.args) == 1 and self.expr(e.args[0])[1] == "Z":
            return "(py_str_int %s)" % self.expr(e.args[0])[0], "str"
        if isinstance(f, ast.Name) and f.id == "str" and len(e.args) == 1:
            a, ta = self.expr(e.args[0])
            if ta == "str":
                self.notes.append("str(x) of a value declared str is x")
                return a, "str"
        if isinstance(f, ast.Attribute) and f.attr == "lower" and not e.args:
            a, ta = self.expr(f.value)
            if ta == "str":
                self.notes.append(".lower() is Config.lower (ASCII)")
                return "(lower %s)" % a, "str"
        if isinstance(f, ast.Attribute) and f.attr == "strip" and not e.args:
            a, ta = self.expr(f.value)
            if ta == "str":
                return "(py_strip %s)" % a, "str"
        if isinstance(f, ast.Name) and f.id == "isinstance" and len(e.args) == 2 and dotted(e.args[1]) == "BaseException":
            a, ta = self.expr(e.args[0])
            if ta == "eres":
                self.notes.append("isinstance(r, BaseException) on an evaluation outcome: r is what the expression raised (Cond.eres)")
                return "(is_err %s)" % a, "bool"
        if isinstance(f, ast.Name) and f.id == "str" and len(e.args) == 1 and self.expr(e.args[0])[1] == "eres":
            return "(eres_text %s)" % self.expr(e.args[0])[0], "str"
        if isinstance(f, ast.Attribute) and f.attr == "startswith" and len(e.args) == 1:
            a, ta = self.expr(f.value)
            p, tp = self.expr(e.args[0])
            if ta == tp == "str":
                return "(prefixb %s %s)" % (p, a), "bool"
        raise Unsupported("call %s" % (pat or ast.dump(f)[:60]))

    def subst(self, template):
        out = template
        for pat, (term, _ty) in self.state.items():
            out = out.replace("{%s}" % pat, term)
        for pat, (term, _ty) in self.env.items():
            out = out.replace("{%s}" % pat, term)
        return out

    # ------------------------------------------------------------------ statements
    def result(self, value):
        if not self.state_order:
            if value is None:
                raise Unsupported("function may end without returning")
            return value[0]
        st = "(" + ", ".join(self.state[p][0] for p in self.state_order) + ")" if len(self.state_order) > 1 else self.state[self.state_order[0]][0]
        if self.spec.get("on_return"):
            # (state, value-or-how-it-ended): the spec says how a returned value / a bare return is represented
            if value is None or value[1] == "none":
                return "(%s, %s)" % (st, self.spec["on_return"]["none"])
            return "(%s, %s)" % (st, self.spec["on_return"]["value"] % value[0])
        if self.spec.get("outcomes"):
            # a procedure on declared state that may raise: (state, how it ended)
            if value is not None and value[1] != "none":
                raise Unsupported("a value is returned from a procedure translated with outcomes")
            return "(%s, ROk)" % st
        if value is None:
            return st
        return "(%s, %s)" % (st, value[0])

    def raised(self, exc):
        oc = self.spec.get("outcomes", {})
        if self.spec.get("on_return") and exc in self.spec["on_return"].get("raises", {}):
            oc = self.spec["on_return"]["raises"]
        if exc not in oc:
            raise Unsupported("raise %s" % exc)
        st = "(" + ", ".join(self.state[p][0] for p in self.state_order) + ")" if len(self.state_order) > 1 else self.state[self.state_order[0]][0]
        return "(%s, %s)" % (st, oc[exc])

    def new(self, base):
        self.fresh += 1
        return "%s%d" % (base, self.fresh)

    def state_tuple(self):
        return "(" + ", ".join(self.state[p][0] for p in self.state_order) + ")" if len(self.state_order) > 1 else self.state[self.state_order[0]][0]

    def block(self, stmts):
        if not stmts and getattr(self, "in_loop", 0):
            return self.state_tuple()           # the end of a loop body: the state it leaves behind
        if stmts and getattr(self, "in_loop", 0) and isinstance(stmts[0], (ast.Return, ast.Raise, ast.Break, ast.Continue)):
            raise Unsupported("%s inside a translated loop body" % type(stmts[0]).__name__)
        if not stmts:
            if self.spec.get("falls_off"):
                return self.result(None)
            raise Unsupported("function may end without returning")
        st, rest = stmts[0], stmts[1:]
        if isinstance(st, _FactsReset):
            self.facts = set(st.facts)
            return self.block(rest)
        if isinstance(st, ast.Expr) and isinstance(st.value, ast.Constant) and isinstance(st.value.value, str):
            return self.block(rest)
        if isinstance(st, (ast.Import, ast.ImportFrom)) and self.spec.get("allow_imports"):
            return self.block(rest)             # an import inside the function: the names it binds are declared
        if isinstance(st, ast.Try) and not st.orelse and not st.finalbody and len(st.handlers) == 1 and len(st.body) == 1 \
                and isinstance(st.body[0], ast.Assign) and len(st.body[0].targets) == 1 and isinstance(st.body[0].targets[0], ast.Name) \
                and isinstance(st.body[0].value, ast.Call) and dotted_or_super(st.body[0].value.func) in self.spec.get("raising_calls", {}) \
                and dotted(st.handlers[0].type) == self.spec["raising_calls"][dotted_or_super(st.body[0].value.func)]["raises"] \
                and st.handlers[0].name is None:
            # try: x = f(args) / except E: BODY      f is declared to answer `option T`: None = it raised E
            rc = self.spec["raising_calls"][dotted_or_super(st.body[0].value.func)]
            args = [self.expr(a) for a in st.body[0].value.args]
            if len(args) != len(rc["args"]):
                raise Unsupported("raising call with %d arguments" % len(args))
            args = [self.coerce(a, t, w) for (a, t), w in zip(args, rc["args"])]
            call = "(" + " ".join([self.subst(rc["fn"])] + args) + ")"
            target = st.body[0].targets[0].id
            v = self.new(target + "_")
            saved = dict(self.state), dict(self.env), set(self.facts)
            self.env[target] = ("(Some %s)" % v if self.env.get(target, ("", ""))[1].startswith("option ") or rc.get("wrap") else v,
                                rc.get("bind_type", rc["ret"]))
            ok_branch = self.block(list(rest))
            self.state, self.env, self.facts = dict(saved[0]), dict(saved[1]), set(saved[2])
            ex_branch = self.block(list(st.handlers[0].body) + list(rest))
            self.state, self.env, self.facts = saved
            return "(match %s with Some %s => %s | None => %s end)" % (call, v, ok_branch, ex_branch)
        if isinstance(st, ast.AnnAssign) and st.value is None:
            return self.block(rest)             # a bare annotation
        if isinstance(st, ast.Try) and not st.orelse and not st.finalbody and st.handlers and self.spec.get("isolating_try") \
                and all(dotted(h.type) in ("BaseException", "Exception") and all(
                    isinstance(x, ast.Expr) and isinstance(x.value, ast.Call) and (dotted(x.value.func) or "").startswith("logging.") for x in h.body)
                    for h in st.handlers):
            self.notes.append("try: ... except (Base)Exception: <log>  - translated as its body: what happens when something in it raises is the "
                              "exception-flow skeleton's subject (gen/Skeleton.v), not this translation's")
            return self.block(list(st.body) + list(rest))
        if isinstance(st, ast.With) and len(st.items) == 1 and st.items[0].optional_vars is None \
                and dotted(st.items[0].context_expr) in self.spec.get("transparent_withs", []):
            self.notes.append("`with %s:` is declared transparent (its enter / exit change nothing that is modelled here)" % dotted(st.items[0].context_expr))
            return self.block(list(st.body) + list(rest))
        if isinstance(st, ast.With) and len(st.items) == 1 and isinstance(st.items[0].optional_vars, ast.Name) \
                and isinstance(st.items[0].context_expr, ast.Call) and dotted(st.items[0].context_expr.func) in self.spec.get("binding_withs", []):
            # with <declared call>(..) as x:   x is what the declared call answers
            v, tv = self.expr(st.items[0].context_expr)
            return self.bind(st.items[0].optional_vars.id, v, tv, list(st.body) + list(rest))
        if isinstance(st, ast.For) and not st.orelse and isinstance(st.target, ast.Name) and self.state_order and not self.has_break(st.body) \
                and self.spec.get("state_loops") and dotted(st.iter) in self.env and self.env[dotted(st.iter)][1].startswith("list "):
            # for x in L: <statements on the declared state>     ==   a fold over L carrying the state
            seq, ts_ = self.expr(st.iter)
            x = self.new(st.target.id + "_")
            saved_env, saved_state = dict(self.env), dict(self.state)
            inner = {p_: self.new(self.spec["state_names"][p_]) for p_ in self.state_order}
            for p_ in self.state_order:
                self.state[p_] = (inner[p_], saved_state[p_][1])
            self.env[st.target.id] = (x, ts_[len("list "):])
            self.in_loop = getattr(self, "in_loop", 0) + 1
            try:
                body = self.block(list(st.body))
            finally:
                self.in_loop -= 1
            self.env = saved_env
            acc_ty = " * ".join(saved_state[p_][1] if " " not in saved_state[p_][1] else "(%s)" % saved_state[p_][1] for p_ in self.state_order)
            pat = "(" + ", ".join(inner[p_] for p_ in self.state_order) + ")" if len(self.state_order) > 1 else inner[self.state_order[0]]
            init = "(" + ", ".join(saved_state[p_][0] for p_ in self.state_order) + ")" if len(self.state_order) > 1 else saved_state[self.state_order[0]][0]
            outs = {p_: self.new(self.spec["state_names"][p_]) for p_ in self.state_order}
            for p_ in self.state_order:
                self.state[p_] = (outs[p_], saved_state[p_][1])
            pat_out = "'(" + ", ".join(outs[p_] for p_ in self.state_order) + ")" if len(self.state_order) > 1 else outs[self.state_order[0]]
            lam = "(fun (acc_ : %s) (%s : %s) => let %s := acc_ in %s)" % (acc_ty, x, ts_[len("list "):], ("'" + pat) if len(self.state_order) > 1 else pat, body)
            return "(let %s := fold_left %s %s %s in %s)" % (pat_out, lam, seq, init, self.block(rest))
        if isinstance(st, ast.If) and not st.orelse and isinstance(st.test, ast.BoolOp) and isinstance(st.test.op, ast.And) \
                and any(isinstance(v, ast.Call) and dotted(v.func) in self.spec.get("eff_calls", {}) for v in st.test.values):
            # if A and <call that answers a truth value AND changes state> [and ...]: BODY       (short-circuit, left to right)
            def chain(values):
                if not values:
                    return self.block(list(st.body) + list(rest))
                v0, more = values[0], values[1:]
                if isinstance(v0, ast.Call) and dotted(v0.func) in self.spec.get("eff_calls", {}):
                    ec = self.spec["eff_calls"][dotted(v0.func)]
                    if ec["ret"] != "bool" or v0.keywords:
                        raise Unsupported("effectful call of type %s in a condition" % ec["ret"])
                    args = [self.expr(a) for a in v0.args]
                    if len(args) != len(ec["args"]):
                        raise Unsupported("call %s with %d arguments" % (dotted(v0.func), len(args)))
                    args = [self.coerce(a, t, w) for (a, t), w in zip(args, ec["args"])]
                    call = " ".join([self.subst(ec["fn"])] + args)
                    b = self.new("ok_")
                    names = [self.new(self.spec["state_names"][p_]) for p_ in ec["updates"]]
                    for p_, n in zip(ec["updates"], names):
                        self.state[p_] = (n, self.state[p_][1])
                    after = dict(self.state)
                    yes = chain(more)
                    self.state = dict(after)
                    no = self.block(list(rest))
                    return "(let '(%s, %s) := %s in (if %s then %s else %s))" % (b, ", ".join(names), call, b, yes, no)
                c, tc = self.expr(v0)
                before = dict(self.state)
                yes = chain(more)
                self.state = dict(before)
                no = self.block(list(rest))
                return "(if %s then %s else %s)" % (self.truth(c, tc), yes, no)
            saved_state, saved_env = dict(self.state), dict(self.env)
            out = chain(list(st.test.values))
            self.state, self.env = saved_state, saved_env
            return out
        if isinstance(st, ast.ClassDef) and st.name in self.spec.get("local_classes", {}):
            self.notes.append("class %s (defined inside the function) is declared: %s" % (st.name, self.spec["local_classes"][st.name]))
            return self.block(rest)
        if isinstance(st, ast.For) and not st.orelse and isinstance(st.target, ast.Name) and self.has_break(st.body):
            return self.for_with_break(st, rest)
        if isinstance(st, ast.Raise) and st.cause is None and st.exc is not None:
            name = dotted(st.exc.func) if isinstance(st.exc, ast.Call) else dotted(st.exc)
            return self.raised(name)
        od = self.spec.get("odicts", {})          # attribute path of an OrderedDict -> state pattern holding its items
        if isinstance(st, ast.Delete) and len(st.targets) == 1 and isinstance(st.targets[0], ast.Subscript) \
                and dotted(st.targets[0].value) in od:
            sp = od[dotted(st.targets[0].value)]
            k, tk = self.expr(st.targets[0].slice)
            if tk != "str":
                raise Unsupported("dict key of type %s" % tk)
            cur = self.state[sp][0]
            if (cur, k) in self.facts:
                self.facts.discard((cur, k))
                return self.bind(sp, "(aremove %s %s)" % (k, cur), self.state[sp][1], rest)
            # `del d[k]` raises KeyError when k is absent
            absent = self.raised("KeyError")
            n = self.new(self.spec["state_names"][sp])
            self.state[sp] = (n, self.state[sp][1])
            return "(if (inb %s %s) then (let %s := (aremove %s %s) in %s) else %s)" % (k, cur, n, k, cur, self.block(rest), absent)
        if isinstance(st, ast.Assign) and len(st.targets) == 1 and isinstance(st.targets[0], ast.Subscript) \
                and dotted(st.targets[0].value) in od:
            sp = od[dotted(st.targets[0].value)]
            k, tk = self.expr(st.targets[0].slice)
            v, tv = self.expr(st.value)
            if tk != "str" or tv != self.spec["odict_value"]:
                raise Unsupported("dict store of %s -> %s" % (tk, tv))
            return self.bind(sp, "(od_set %s %s %s)" % (self.state[sp][0], k, v), self.state[sp][1], rest)
        if isinstance(st, ast.Expr) and isinstance(st.value, ast.Call) and isinstance(st.value.func, ast.Attribute) \
                and st.value.func.attr == "popitem" and dotted(st.value.func.value) in od and not st.value.args \
                and len(st.value.keywords) == 1 and st.value.keywords[0].arg == "last" \
                and isinstance(st.value.keywords[0].value, ast.Constant) and st.value.keywords[0].value.value is False:
            sp = od[dotted(st.value.func.value)]
            # popitem(last=False) drops the oldest entry; on an EMPTY dict it raises KeyError
            cur = self.state[sp][0]
            empty = self.raised("KeyError")
            n = self.new(self.spec["state_names"][sp])
            self.state[sp] = (n, self.state[sp][1])
            return "(match %s with [] => %s | _ :: %s => %s end)" % (cur, empty, n, self.block(rest))
        if isinstance(st, ast.Try) and not st.orelse and not st.finalbody and len(st.body) == 1 and isinstance(st.body[0], ast.Return) \
                and isinstance(st.body[0].value, ast.Call) and dotted(st.body[0].value.func) == "int" and len(st.body[0].value.args) == 1 \
                and not st.body[0].value.keywords and len(st.handlers) == 1 and dotted(st.handlers[0].type) == "ValueError" \
                and st.handlers[0].name is None and len(st.handlers[0].body) == 1 and isinstance(st.handlers[0].body[0], ast.Return):
            # try: return int(E) / except ValueError: return D      (nothing else in E can raise ValueError: E is a declared lookup)
            a, ta = self.expr(st.body[0].value.args[0])
            if ta != "argv":
                raise Unsupported("int() of a %s" % ta)
            d, td = self.expr(st.handlers[0].body[0].value)
            if td != "Z":
                raise Unsupported("default of type %s" % td)
            self.notes.append("int(v): a number as it is, decimal text parsed (Limiter.parse_int), other text raises ValueError")
            return self.result(("(match py_int %s with Some z_ => z_ | None => %s end)" % (a, d), "Z"))
        if isinstance(st, ast.Return):
            if st.value is None:
                return self.result(None)
            v, tv = self.expr(st.value)
            want = self.spec.get("value_type")
            if want is not None:
                v, tv = self.coerce_to(st.value, v, tv, want), want
            return self.result((v, tv))
        if isinstance(st, ast.If) and isinstance(st.test, ast.BoolOp) and isinstance(st.test.op, ast.Or) and not st.orelse \
                and isinstance(st.body[-1], ast.Return) and self.none_test(st.test.values[0]) is not None \
                and self.none_test(st.test.values[0])[1]:
            # `if x is None or REST: ...return`  - what follows runs only when x holds a value
            pat, _is, inner = self.none_test(st.test.values[0])
            v = self.new("some_")
            saved = dict(self.state), dict(self.env)
            a = self.block(list(st.body))
            self.state, self.env = dict(saved[0]), dict(saved[1])
            self.env[pat] = (v, inner)
            others = st.test.values[1:]
            r, tr = self.expr(others[0] if len(others) == 1 else ast.BoolOp(op=ast.Or(), values=others))
            b_then = self.block(list(st.body))
            self.state = dict(saved[0])
            b_else = self.block(list(rest))
            self.state, self.env = saved
            return "(match %s with None => %s | Some %s => (if %s then %s else %s) end)" % (
                self.env[pat][0], a, v, self.truth(r, tr), b_then, b_else)
        if isinstance(st, ast.If) and self.none_test(st.test) is not None:
            pat, is_none, inner = self.none_test(st.test)
            v = self.new("some_")
            saved = dict(self.state), dict(self.env)
            none_branch, some_branch = (st.body, st.orelse) if is_none else (st.orelse, st.body)
            a = self.block(list(none_branch) + list(rest))
            self.state, self.env = dict(saved[0]), dict(saved[1])
            self.env[pat] = (v, inner)
            b = self.block(list(some_branch) + list(rest))
            self.state, self.env = saved
            return "(match %s with None => %s | Some %s => %s end)" % (self.env[pat][0], a, v, b)
        if isinstance(st, ast.If) and self.only_local_assigns(st.body) and self.only_local_assigns(st.orelse):
            # if c: x = a [else: x = b]   ==   x := (if c then a else b-or-the-old-x); nothing else happens in the branches
            t, ty = self.expr(st.test)
            saved_facts = set(self.facts)

            def run(assigns, facts):
                self.facts = saved_facts | facts
                env, out = dict(self.env), {}
                for a in assigns:
                    v, tv = self.expr(a.value)
                    n = a.targets[0].id
                    out[n] = (v, tv)
                    self.env[n] = ("(%s)" % v, tv)        # later assignments of the branch see it
                self.env = env
                return out
            a = run(st.body, self.facts_of(st.test, True))
            b = run(st.orelse, self.facts_of(st.test, False))
            self.facts = saved_facts
            lets = []
            for n in sorted(set(a) | set(b)):
                old = self.env.get(n)
                va, vb = a.get(n, old), b.get(n, old)
                if va is None or vb is None:
                    raise Unsupported("%s is assigned on one path only" % n)
                tyj = self.join(va[1], vb[1])
                fresh = self.new(n + "_")
                lets.append((n, fresh, "(if %s then %s else %s)" % (self.truth(t, ty), self.coerce(va[0], va[1], tyj), self.coerce(vb[0], vb[1], tyj)), tyj))
            for n, fresh, _v, tyj in lets:
                self.env[n] = (fresh, tyj)
            body = self.block(rest)
            for n, fresh, v, _t in reversed(lets):
                body = "(let %s := %s in %s)" % (fresh, v, body)
            return body
        if isinstance(st, ast.If):
            t, ty = self.expr(st.test)
            if t == "false":        # statically decided (declared never-None): the branch is dead under that declaration
                return self.block(list(st.orelse) + list(rest))
            if t == "true":
                return self.block(list(st.body) + list(rest))
            saved = dict(self.state), dict(self.env)
            saved_facts = set(self.facts)
            returns = isinstance(st.body[-1], ast.Return)
            self.facts = saved_facts | self.facts_of(st.test, True)
            a = self.block(list(st.body)) if returns else self.block_then(list(st.body), list(rest), saved_facts)
            self.state, self.env = dict(saved[0]), dict(saved[1])
            self.facts = saved_facts | self.facts_of(st.test, False)
            b = self.block_then(list(st.orelse), list(rest), self.facts if returns else saved_facts)
            self.state, self.env = saved
            self.facts = saved_facts
            return "(if %s then %s else %s)" % (self.truth(t, ty), a, b)
        if isinstance(st, ast.For) and not st.orelse and isinstance(st.target, ast.Name) and len(st.body) == 1 \
                and isinstance(st.body[0], ast.If) and not st.body[0].orelse and len(st.body[0].body) == 1 \
                and isinstance(st.body[0].body[0], ast.AugAssign) and isinstance(st.body[0].body[0].op, ast.Add) \
                and isinstance(st.body[0].body[0].target, ast.Name) and st.body[0].body[0].target.id in self.env \
                and self.env[st.body[0].body[0].target.id][1].startswith("list "):
            # for x in L: if C(x): acc += E(x)      ==   acc ++ flat_map (fun x => if C x then E x else []) L
            seq, ts_ = self.expr(st.iter)
            if not ts_.startswith("list "):
                raise Unsupported("for over a %s" % ts_)
            acc = st.body[0].body[0].target.id
            x = self.new(st.target.id + "_")
            saved = dict(self.env)
            self.env[st.target.id] = (x, ts_[len("list "):])
            c, tc = self.expr(st.body[0].test)
            e, te = self.expr(st.body[0].body[0].value)
            self.env = saved
            if te != self.env[acc][1]:
                raise Unsupported("accumulating a %s into a %s" % (te, self.env[acc][1]))
            return self.bind(acc, "(%s ++ flat_map (fun %s => if %s then %s else []) %s)" % (self.env[acc][0], x, self.truth(c, tc), e, seq),
                             te, rest)
        if isinstance(st, ast.For) and not st.orelse and isinstance(st.target, ast.Name) and len(st.body) == 1 \
                and isinstance(st.body[0], ast.If) and not st.body[0].orelse and len(st.body[0].body) == 1 \
                and isinstance(st.body[0].body[0], ast.Return):
            # for x in L: if C(x): return E(x)      ==   the first x of L with C(x), if any, decides
            seq, ts_ = self.expr(st.iter)
            if ts_ != "list str":
                raise Unsupported("for over a %s" % ts_)
            x = self.new(st.target.id + "_")
            saved = dict(self.state), dict(self.env)
            self.env[st.target.id] = (x, "str")
            c, tc = self.expr(st.body[0].test)
            found = self.block([st.body[0].body[0]])
            self.state, self.env = dict(saved[0]), dict(saved[1])
            after = self.block(list(rest))
            self.state, self.env = saved
            return "(match find (fun %s => %s) %s with Some %s => %s | None => %s end)" % (x, self.truth(c, tc), seq, x, found, after)
        if isinstance(st, ast.Expr) and isinstance(st.value, ast.Call) and isinstance(st.value.func, ast.Attribute) \
                and st.value.func.attr == "append" and len(st.value.args) == 1 and isinstance(st.value.func.value, ast.Name) \
                and st.value.func.value.id in self.env and self.env[st.value.func.value.id][1].startswith("list ") \
                and st.value.func.value.id in self.spec.get("local_lists", []):
            # x.append(e) on a list this function built itself (declared local): x becomes x ++ [e]
            name = st.value.func.value.id
            a, ta = self.expr(st.value.args[0])
            if "list " + ta != self.env[name][1]:
                raise Unsupported("append of a %s to a %s" % (ta, self.env[name][1]))
            return self.bind(name, "(%s ++ [%s])" % (self.env[name][0], a), self.env[name][1], rest)
        if isinstance(st, ast.Assign) and len(st.targets) == 1 and isinstance(st.targets[0], ast.Name) \
                and isinstance(st.value, ast.Call) and dotted(st.value.func) in self.spec.get("eff_calls", {}) and not st.value.keywords:
            # x = <declared call that answers a value AND changes declared state>:   let '(x, state') := f args state
            ec = self.spec["eff_calls"][dotted(st.value.func)]
            args = [self.expr(a) for a in st.value.args]
            if len(args) != len(ec["args"]):
                raise Unsupported("call %s with %d arguments" % (dotted(st.value.func), len(args)))
            args = [self.coerce(a, t, w) for (a, t), w in zip(args, ec["args"])]
            call = " ".join([self.subst(ec["fn"])] + args)
            x = self.new(st.targets[0].id + "_")
            names = [self.new(self.spec["state_names"][p]) for p in ec["updates"]]
            self.env[st.targets[0].id] = (x, ec["ret"])
            for p, n in zip(ec["updates"], names):
                self.state[p] = (n, self.state[p][1])
            return "(let '(%s, %s) := %s in %s)" % (x, ", ".join(names), call, self.block(rest))
        if isinstance(st, ast.Assign) and len(st.targets) == 1 and isinstance(st.targets[0], ast.Name) \
                and isinstance(st.value, ast.Call) and dotted(st.value.func) in self.stmt_calls:
            # x = <declared effectful call>: the effect is translated, the handle it returns carries no modelled information
            self.env[st.targets[0].id] = ("tt", "unit")
            return self.block([ast.Expr(value=st.value)] + list(rest))
        if isinstance(st, ast.Expr) and isinstance(st.value, ast.Call) and isinstance(st.value.func, ast.Attribute) \
                and st.value.func.attr == "append" and len(st.value.args) == 1 and dotted(st.value.func.value) in self.state \
                and self.state[dotted(st.value.func.value)][1].startswith("list "):
            sp = dotted(st.value.func.value)
            a, ta = self.expr(st.value.args[0])
            elt = self.state[sp][1][len("list "):]
            return self.bind(sp, "(%s ++ [%s])" % (self.state[sp][0], self.coerce(a, ta, elt)), self.state[sp][1], rest)
        if isinstance(st, ast.For) and not st.orelse and isinstance(st.target, ast.Tuple) and len(st.target.elts) == 2 \
                and all(isinstance(t, ast.Name) for t in st.target.elts) and isinstance(st.iter, ast.Call) and dotted(st.iter.func) == "enumerate" \
                and len(st.iter.args) == 1 and dotted(st.iter.args[0]) in self.state and len(st.body) == 1 and isinstance(st.body[0], ast.If) \
                and not st.body[0].orelse and isinstance(st.body[0].body[-1], ast.Return):
            # for i, x in enumerate(L): if C(x): ...; return       ==   the first index whose element satisfies C, if any
            sp = dotted(st.iter.args[0])
            lst, tl_ = self.state[sp]
            if not tl_.startswith("list "):
                raise Unsupported("enumerate over a %s" % tl_)
            iname, xname = st.target.elts[0].id, st.target.elts[1].id
            i, x = self.new(iname + "_"), self.new(xname + "_")
            saved = dict(self.state), dict(self.env)
            self.env[xname] = (x, tl_[len("list "):])
            c, tc = self.expr(st.body[0].test)
            self.env[iname] = (i, "index")
            found = self.block(list(st.body[0].body))
            self.state, self.env = dict(saved[0]), dict(saved[1])
            after = self.block(list(rest))
            self.state, self.env = saved
            return "(match find_index (fun %s => %s) %s with Some %s => %s | None => %s end)" % (x, self.truth(c, tc), lst, i, found, after)
        if isinstance(st, ast.Delete) and len(st.targets) == 1 and isinstance(st.targets[0], ast.Subscript) \
                and dotted(st.targets[0].value) in self.state and self.state[dotted(st.targets[0].value)][1].startswith("list "):
            sp = dotted(st.targets[0].value)
            k, tk = self.expr(st.targets[0].slice)
            if tk != "index":
                raise Unsupported("del list[%s]" % tk)
            return self.bind(sp, "(remove_nth %s %s)" % (k, self.state[sp][0]), self.state[sp][1], rest)
        if isinstance(st, ast.Assign) and len(st.targets) == 1 and isinstance(st.targets[0], ast.Tuple) \
                and all(isinstance(t, ast.Name) for t in st.targets[0].elts):
            v, tv = self.expr(st.value)
            tys = tv[1:-1].split(" * ") if tv.startswith("(") else []
            if len(tys) != len(st.targets[0].elts):
                raise Unsupported("unpacking a %s" % tv)
            names = []
            for t, ty in zip(st.targets[0].elts, tys):
                n = self.new(t.id + "_")
                self.env[t.id] = (n, ty)
                names.append(n)
            return "(let '(%s) := %s in %s)" % (", ".join(names), v, self.block(rest))
        if isinstance(st, ast.Assign) and len(st.targets) == 1 and isinstance(st.targets[0], ast.Name) \
                and isinstance(st.value, ast.List) and not st.value.elts and st.targets[0].id in self.spec.get("empty_lists", {}):
            ty_ = self.spec["empty_lists"][st.targets[0].id]
            elt_ = ty_[len("list "):]
            return self.bind(st.targets[0].id, "(@nil %s)" % (elt_ if " " not in elt_ else "(%s)" % elt_), ty_, rest)
        if isinstance(st, ast.Assign) and len(st.targets) == 1 and isinstance(st.targets[0], ast.Attribute) \
                and isinstance(st.targets[0].value, ast.Name) and st.targets[0].value.id in self.env \
                and st.targets[0].attr in self.spec.get("setters", {}):
            # x.attr = E on a local x through a declared setter: x becomes (setter x E)
            setter, want = self.spec["setters"][st.targets[0].attr]
            name = st.targets[0].value.id
            v, tv = self.expr(st.value)
            if tv != want:
                raise Unsupported("%s.%s = a %s" % (name, st.targets[0].attr, tv))
            return self.bind(name, "(%s %s %s)" % (setter, self.env[name][0], v), self.env[name][1], rest)
        if isinstance(st, ast.Assign) and len(st.targets) == 1:
            pat = dotted(st.targets[0])
            v, tv = self.expr(st.value)
            return self.bind(pat, v, tv, rest)
        if isinstance(st, ast.AugAssign):
            pat = dotted(st.target)
            v, tv = self.expr(ast.BinOp(left=st.target, op=st.op, right=st.value))
            return self.bind(pat, v, tv, rest)
        if isinstance(st, ast.Expr) and isinstance(st.value, ast.Call) and (dotted(st.value.func) or "").startswith("logging.") \
                and self.spec.get("isolating_try"):
            return self.block(rest)
        if isinstance(st, ast.Expr) and isinstance(st.value, ast.Call) and dotted(st.value.func) in self.spec.get("local_updates", {}) \
                and len(st.value.args) == 1 and not st.value.keywords:
            # x.m(E) on a local x through a declared function: x becomes (f x E)
            name_, fn_, ty_ = self.spec["local_updates"][dotted(st.value.func)]
            a_, ta_ = self.expr(st.value.args[0])
            if ta_ != ty_ or name_ not in self.env or self.env[name_][1] != ty_:
                raise Unsupported("update of %s with a %s" % (name_, ta_))
            return self.bind(name_, "(%s %s %s)" % (fn_, self.env[name_][0], a_), ty_, rest)
        if isinstance(st, ast.Expr) and isinstance(st.value, ast.Call) and dotted(st.value.func) in self.spec.get("noop_calls", []):
            self.notes.append("%s(...) is declared to have no effect on the modelled state" % dotted(st.value.func))
            return self.block(rest)
        if isinstance(st, ast.For) and not st.orelse and isinstance(st.target, ast.Name) and dotted(st.iter) in self.spec.get("listener_loops", {}) \
                and len(st.body) == 1 and isinstance(st.body[0], ast.Try) and not st.body[0].orelse and not st.body[0].finalbody \
                and len(st.body[0].body) == 1 and isinstance(st.body[0].body[0], ast.Expr) and isinstance(st.body[0].body[0].value, ast.Call):
            # for l in listeners: try: l.<method>(args) except Exception: <log>      every listener is handed the same arguments
            ll = self.spec["listener_loops"][dotted(st.iter)]
            call = st.body[0].body[0].value
            ok = dotted(call.func) == st.target.id + "." + ll["method"] and not call.keywords
            for h in st.body[0].handlers:
                ok = ok and dotted(h.type) == "Exception" and all(
                    isinstance(x, ast.Expr) and isinstance(x.value, ast.Call) and (dotted(x.value.func) or "").startswith("logging.") for x in h.body)
            if not ok:
                raise Unsupported("listener loop of another shape")
            args = [self.expr(a) for a in call.args]
            if len(args) != len(ll["args"]):
                raise Unsupported("listener call with %d arguments" % len(args))
            args = [self.coerce(a, t, w) for (a, t), w in zip(args, ll["args"])]
            sp = ll["updates"]
            n = self.new(self.spec["state_names"][sp])
            callt = " ".join([self.subst(ll["fn"])] + args)
            self.state[sp] = (n, self.state[sp][1])
            self.notes.append("listeners: each is called with the same arguments; one that raises an Exception is logged and skipped")
            return "(let %s := %s in %s)" % (n, callt, self.block(rest))
        if isinstance(st, ast.Expr) and isinstance(st.value, ast.Call):
            pat = dotted(st.value.func)
            if pat in self.stmt_calls and not st.value.keywords:
                sc = self.stmt_calls[pat]
                args = [self.expr(a) for a in st.value.args]
                if len(args) != len(sc["args"]):
                    raise Unsupported("call %s with %d arguments" % (pat, len(args)))
                args = [(self.coerce(a, t, w), w) for (a, t), w in zip(args, sc["args"])]
                call = " ".join([self.subst(sc["fn"])] + [a for a, _ in args])
                names = []
                for p in sc["updates"]:
                    n = self.new(self.spec["state_names"][p])
                    names.append(n)
                for p, n in zip(sc["updates"], names):
                    self.state[p] = (n, self.state[p][1])
                lhs = "'(" + ", ".join(names) + ")" if len(names) > 1 else names[0]
                return "(let %s := %s in %s)" % (lhs, call, self.block(rest))
            raise Unsupported("statement call %s" % pat)
        if isinstance(st, ast.With) and len(st.items) == 1 and dotted(st.items[0].context_expr) in self.locks and st.items[0].optional_vars is None:
            self.notes.append("`with %s:` - the body is one atomic step (the lock); interleavings are not part of this translation" % dotted(st.items[0].context_expr))
            return self.block(list(st.body) + list(rest))
        raise Unsupported("statement %s" % type(st).__name__)

    @staticmethod
    def has_break(stmts):
        for x in stmts:
            if isinstance(x, ast.Break):
                return True
            if isinstance(x, ast.If) and (Fn.has_break(x.body) or Fn.has_break(x.orelse)):
                return True
        return False

    def for_with_break(self, st, rest):
        """for x in L: ... if C: break ... local.append(E) ... local += n        (locals of this function only)
           == a fold over L whose accumulator is (left the loop?, the locals the body assigns); once the loop is left the
           remaining elements change nothing."""
        seq, ts_ = self.expr(st.iter)
        if not ts_.startswith("list "):
            raise Unsupported("for over a %s" % ts_)
        carried = []

        def targets(stmts):
            for x in stmts:
                if isinstance(x, ast.If):
                    targets(x.body)
                    targets(x.orelse)
                elif isinstance(x, ast.AugAssign) and isinstance(x.target, ast.Name):
                    carried.append(x.target.id)
                elif isinstance(x, ast.Assign) and len(x.targets) == 1 and isinstance(x.targets[0], ast.Name):
                    carried.append(x.targets[0].id)
                elif isinstance(x, ast.Expr) and isinstance(x.value, ast.Call) and isinstance(x.value.func, ast.Attribute) \
                        and x.value.func.attr == "append" and isinstance(x.value.func.value, ast.Name):
                    carried.append(x.value.func.value.id)
                elif isinstance(x, (ast.Break, ast.Continue)) or (isinstance(x, ast.Expr) and isinstance(x.value, ast.Constant)):
                    pass
                else:
                    raise Unsupported("statement %s in a loop with break" % type(x).__name__)
        targets(st.body)
        carried = sorted(set(carried))
        for n in carried:
            if n not in self.env or n == st.target.id:
                raise Unsupported("%s is first assigned inside the loop" % n)
        saved = dict(self.env)
        x = self.new(st.target.id + "_")
        inner = {n: self.new(n + "_") for n in carried}
        for n in carried:
            self.env[n] = (inner[n], saved[n][1])
        self.env[st.target.id] = (x, ts_[len("list "):])

        def tup(flag):
            return "(" + ", ".join([flag] + [self.env[n][0] for n in carried]) + ")"

        def go(stmts):
            if not stmts:
                return tup("false")
            s0, more = stmts[0], stmts[1:]
            if isinstance(s0, ast.Break):
                return tup("true")
            if isinstance(s0, ast.Continue):
                return tup("false")
            if isinstance(s0, ast.Expr) and isinstance(s0.value, ast.Constant):
                return go(more)
            if isinstance(s0, ast.If):
                c, tc = self.expr(s0.test)
                env0 = dict(self.env)
                a = go(list(s0.body) + list(more))
                self.env = dict(env0)
                b = go(list(s0.orelse) + list(more))
                self.env = env0
                return "(if %s then %s else %s)" % (self.truth(c, tc), a, b)
            if isinstance(s0, ast.Expr):       # append
                name = s0.value.func.value.id
                if name not in self.spec.get("local_lists", []) or len(s0.value.args) != 1:
                    raise Unsupported("append to %s" % name)
                a, ta = self.expr(s0.value.args[0])
                if "list " + ta != self.env[name][1]:
                    raise Unsupported("append of a %s to a %s" % (ta, self.env[name][1]))
                v, tv = "(%s ++ [%s])" % (self.env[name][0], a), self.env[name][1]
            elif isinstance(s0, ast.AugAssign):
                name = s0.target.id
                v, tv = self.expr(ast.BinOp(left=s0.target, op=s0.op, right=s0.value))
            else:
                name = s0.targets[0].id
                v, tv = self.expr(s0.value)
            if tv != self.env[name][1]:
                raise Unsupported("%s changes its type in the loop (%s to %s)" % (name, self.env[name][1], tv))
            n = self.new(name + "_")
            self.env[name] = (n, tv)
            return "(let %s := %s in %s)" % (n, v, go(more))
        pat_in = "(" + ", ".join(["brk_"] + [inner[n] for n in carried]) + ")"
        body = go(list(st.body))
        self.env = saved
        init = "(" + ", ".join(["false"] + [saved[n][0] for n in carried]) + ")"
        outs = {n: self.new(n + "_") for n in carried}
        for n in carried:
            self.env[n] = (outs[n], saved[n][1])
        pat_out = "(" + ", ".join(["_"] + [outs[n] for n in carried]) + ")"
        self.notes.append("for ... break: a fold whose accumulator says whether the loop was left; later elements then change nothing")
        acc_ty = " * ".join(["bool"] + [saved[n][1] if " " not in saved[n][1] else "(%s)" % saved[n][1] for n in carried])
        return "(let '%s := fold_left (fun (acc_ : %s) (%s : %s) => let '%s := acc_ in if brk_ then acc_ else %s) %s %s in %s)" % (
            pat_out, acc_ty, x, ts_[len("list "):], pat_in, body, seq, init, self.block(rest))

    @staticmethod
    def only_local_assigns(stmts):
        return all(isinstance(x, ast.Assign) and len(x.targets) == 1 and isinstance(x.targets[0], ast.Name) for x in stmts)

    def block_then(self, first, rest, facts_for_rest):
        """first ; rest   where the facts established by a branch test hold inside `first` only (unless carried)."""
        if not first:
            self.facts = set(facts_for_rest)
            return self.block(rest)
        # translate `first` statement by statement so that `rest` sees the environment it leaves behind
        return self.block(first + [_FactsReset(facts_for_rest)] + rest)

    def bind(self, pat, v, tv, rest):
        if pat is None:
            raise Unsupported("assignment target")
        if pat in self.state:
            if self.state[pat][1] != tv:
                v, tv = self.coerce(v, tv, self.state[pat][1]), self.state[pat][1]      # a value / None where an option is declared
            n = self.new(self.spec["state_names"][pat])
            self.state[pat] = (n, tv)
            return "(let %s := %s in %s)" % (n, v, self.block(rest))
        if "." in pat:
            raise Unsupported("assignment to undeclared attribute %s" % pat)
        n = self.new(pat + "_")
        self.env[pat] = (n, tv)
        return "(let %s := %s in %s)" % (n, v, self.block(rest))


def find(path, cls, func):
    tree = ast.parse(open(os.path.join(SRC, path)).read())
    body = tree.body
    if cls is not None:
        for n in body:
            if isinstance(n, ast.ClassDef) and n.name == cls:
                body = n.body
                break
        else:
            raise Unsupported("class %s not found in %s" % (cls, path))
    hits = [n for n in body if isinstance(n, ast.FunctionDef) and n.name == func]
    if len(hits) != 1:
        raise Unsupported("%d definitions of %s.%s in %s" % (len(hits), cls, func, path))
    return hits[0]


Z3 = ["Z"]
SPECS = [
    # ---- rate limiting (C04)
    dict(group="Limits", name="gen_in_window", path="api/tracepoint/tracepoint_config.py", cls="TracepointWindow", func="in_window",
         params="(ws we ts : Z)", ret="bool", args=["self", "ts"],
         env={"ts": ("ts", "Z"), "self._start": ("ws", "Z"), "self._end": ("we", "Z")}),
    dict(group="Limits", name="gen_stats_fire_count", path="api/tracepoint/tracepoint_config.py", cls="TracepointExecutionStats", func="fire_count",
         params="(cnt lastf : Z)", ret="Z", args=["self"], env={"self._fire_count": ("cnt", "Z")}),
    dict(group="Limits", name="gen_stats_last_fire", path="api/tracepoint/tracepoint_config.py", cls="TracepointExecutionStats", func="last_fire",
         params="(cnt lastf : Z)", ret="Z", args=["self"], env={"self._last_fire": ("lastf", "Z")}),
    dict(group="Limits", name="gen_fire", path="api/tracepoint/tracepoint_config.py", cls="TracepointExecutionStats", func="fire",
         params="(cnt lastf ts : Z)", ret="Z * Z", args=["self", "ts"], env={"ts": ("ts", "Z")}, falls_off=True,
         state={"self._fire_count": ("cnt", "Z"), "self._last_fire": ("lastf", "Z")},
         state_names={"self._fire_count": "cnt", "self._last_fire": "lastf"}),
    dict(group="Limits", name="gen_get_int", path="api/tracepoint/trigger.py", cls="LocationAction", func="__get_int",
         params="(config : list (str * argv)) (name : str) (default_value : Z)", ret="Z", args=["self", "name", "default_value"],
         env={"name": ("name", "str"), "default_value": ("default_value", "Z"), "self.__config": ("config", "config")}),
    dict(group="Limits", name="gen_fire_count", path="api/tracepoint/trigger.py", cls="LocationAction", func="fire_count",
         params="(config : list (str * argv))", ret="Z", args=["self"], constants=["api/tracepoint/constants.py"],
         calls={"self.__get_int": ("gen_get_int config", ["str", "Z"], "Z")}),
    dict(group="Limits", name="gen_fire_period", path="api/tracepoint/trigger.py", cls="LocationAction", func="fire_period",
         params="(config : list (str * argv))", ret="Z", args=["self"], constants=["api/tracepoint/constants.py"],
         calls={"self.__get_int": ("gen_get_int config", ["str", "Z"], "Z")}),
    dict(group="Limits", name="gen_fire_period_ns", path="api/tracepoint/trigger.py", cls="LocationAction", func="__fire_period_ns",
         params="(fp : Z)", ret="Z", args=["self"], env={"self.fire_period": ("fp", "Z")}),
    dict(group="Limits", name="gen_can_trigger", path="api/tracepoint/trigger.py", cls="LocationAction", func="can_trigger",
         params="(fc fp ws we cnt lastf ts : Z)", ret="bool", args=["self", "ts"],
         env={"ts": ("ts", "Z"), "self.fire_count": ("fc", "Z"),
              "self.__stats.fire_count": ("(gen_stats_fire_count cnt lastf)", "Z"),
              "self.__stats.last_fire": ("(gen_stats_last_fire cnt lastf)", "Z")},
         calls={"self.__window.in_window": ("gen_in_window ws we", ["Z"], "bool"),
                "self.__fire_period_ns": ("gen_fire_period_ns fp", [], "Z")}),
    dict(group="Limits", name="gen_try_trigger", path="api/tracepoint/trigger.py", cls="LocationAction", func="try_trigger",
         params="(fc fp ws we cnt lastf ts : Z)", ret="(Z * Z) * bool", args=["self", "ts"],
         env={"ts": ("ts", "Z")}, locks=["self.__lock"],
         state={"stats.cnt": ("cnt", "Z"), "stats.lastf": ("lastf", "Z")},
         state_names={"stats.cnt": "cnt", "stats.lastf": "lastf"},
         calls={"self.can_trigger": ("gen_can_trigger fc fp ws we {stats.cnt} {stats.lastf}", ["Z"], "bool")},
         stmt_calls={"self.__stats.fire": dict(fn="gen_fire {stats.cnt} {stats.lastf}", args=["Z"], updates=["stats.cnt", "stats.lastf"])}),
    dict(group="Limits", name="gen_acquire", path="processor/context/action_context.py", cls="ActionContext", func="acquire",
         params="(fc fp ws we cnt lastf ts : Z)", ret="(Z * Z) * bool", args=["self"],
         env={"self.trigger_context.ts": ("ts", "Z")},
         calls={"self.location_action.try_trigger": ("gen_try_trigger fc fp ws we cnt lastf", ["Z"], "((Z * Z) * bool)")}),
    # ---- trigger placement (C03)
    dict(group="Match", name="gen_line_at_location", path="api/tracepoint/trigger.py", cls="LineLocation", func="at_location",
         params="(path : str) (line_cfg : Z) (event file : str) (line : Z) (function_name : str)", ret="bool",
         args=["self", "event", "file", "line", "function_name", "frame"],
         env={"event": ("event", "str"), "file": ("file", "str"), "line": ("line", "Z"), "function_name": ("function_name", "str"),
              "self.path": ("path", "str"), "self.line": ("line_cfg", "Z")}, falls_off=False),
    dict(group="Match", name="gen_func_at_location", path="api/tracepoint/trigger.py", cls="FunctionLocation", func="at_location",
         params="(path fname : str) (event file : str) (line : Z) (function_name : str)", ret="bool",
         args=["self", "event", "file", "line", "function_name", "frame"],
         env={"event": ("event", "str"), "file": ("file", "str"), "line": ("line", "Z"), "function_name": ("function_name", "str"),
              "self.path": ("path", "str"), "self.__function_name": ("fname", "str")},
         static_none={"self.__function_name": False}),
    dict(group="Match", name="gen_actions_for_location", path="processor/trigger_handler.py", cls="TriggerHandler", func="__actions_for_location",
         params="(tp_config : list trigger) (event file : str) (line : Z) (function : str)", ret="list nat",
         args=["self", "event", "file", "line", "function", "frame"], empty_lists={"actions": "list nat"},
         env={"event": ("event", "str"), "file": ("file", "str"), "line": ("line", "Z"), "function": ("function", "str"), "frame": ("tt", "unit"),
              "self._tp_config": ("tp_config", "list trigger"), "trigger.actions": ("(t_actions {trigger})", "list nat")},
         calls={"trigger.at_location": ("trigger_at_location {trigger}", ["str", "str", "Z", "str", "unit"], "bool")}),
    # ---- collection limits (C05), rendering (C02)
    dict(group="Collect", name="gen_truncate_string", path="processor/variable_processor.py", cls=None, func="truncate_string",
         params="(string : str) (max_length : Z)", ret="str * bool", args=["string", "max_length"],
         env={"string": ("string", "str"), "max_length": ("max_length", "Z")}),
    dict(group="Collect", name="gen_check_var_count", path="processor/variable_set_processor.py", cls="VariableSetProcessor", func="check_var_count",
         params="(size max_variables : Z)", ret="bool", args=["self"],
         env={"self.__var_cache.size": ("size", "Z"), "self.__config.max_variables": ("max_variables", "Z")}),
    dict(group="Render", name="gen_var_modifiers", path="processor/variable_processor.py", cls=None, func="var_modifiers",
         params="(var_name : str)", ret="list str", args=["var_name"], env={"var_name": ("var_name", "str")}),
    # ---- interpretation of a tracepoint's arguments (C11)
    dict(group="Table", name="gen_build_snapshot_action", path="api/tracepoint/trigger.py", cls=None, func="build_snapshot_action",
         params="(tp_id : str) (args : args) (watches : list str)", ret="option gaction", value_type="option gaction",
         args=["tp_id", "args", "watches"], constants=["api/tracepoint/constants.py"],
         env={"tp_id": ("tp_id", "str"), "args": ("args", "args"), "watches": ("watches", "list str"),
              "LocationAction.ActionType.Snapshot": ("ASnapshot", "akind")},
         calls={"LocationAction": ("mk_action", ["str", "option str", "dict", "akind"], "gaction")}),
    dict(group="Table", name="gen_build_log_action", path="api/tracepoint/trigger.py", cls=None, func="build_log_action",
         params="(tp_id : str) (args : args)", ret="option gaction", value_type="option gaction",
         args=["tp_id", "args"], constants=["api/tracepoint/constants.py"],
         env={"tp_id": ("tp_id", "str"), "args": ("args", "args"), "LocationAction.ActionType.Log": ("ALog", "akind")},
         calls={"LocationAction": ("mk_action", ["str", "option str", "dict", "akind"], "gaction")}),
    dict(group="Table", name="gen_build_metric_action", path="api/tracepoint/trigger.py", cls=None, func="build_metric_action",
         params="(tp_id : str) (args : args) (nmetrics : nat)", ret="option gaction", value_type="option gaction",
         args=["tp_id", "args", "metrics"], constants=["api/tracepoint/constants.py"],
         env={"tp_id": ("tp_id", "str"), "args": ("args", "args"), "metrics": ("nmetrics", "metrics"),
              "LocationAction.ActionType.Metric": ("AMetric", "akind")},
         calls={"LocationAction": ("mk_action", ["str", "option str", "dict", "akind"], "gaction")}),
    dict(group="Table", name="gen_build_span_action", path="api/tracepoint/trigger.py", cls=None, func="build_span_action",
         params="(tp_id : str) (args : args)", ret="option gaction", value_type="option gaction",
         args=["tp_id", "args"], constants=["api/tracepoint/constants.py"],
         env={"tp_id": ("tp_id", "str"), "args": ("args", "args"), "LocationAction.ActionType.Span": ("ASpan", "akind")},
         calls={"LocationAction": ("mk_action", ["str", "option str", "dict", "akind"], "gaction")}),
    dict(group="Table", name="gen_build_trigger", path="api/tracepoint/trigger.py", cls=None, func="build_trigger",
         params="(tp_id path : str) (line_no : Z) (args : args) (watches : list str) (nmetrics : nat)", ret="option gtrigger",
         value_type="option gtrigger", args=["tp_id", "path", "line_no", "args", "watches", "metrics"], constants=["api/tracepoint/constants.py"],
         env={"tp_id": ("tp_id", "str"), "path": ("path", "str"), "line_no": ("line_no", "Z"), "args": ("args", "args"),
              "watches": ("watches", "list str"), "metrics": ("nmetrics", "metrics")},
         calls={"Location.Position.from_stage": ("position_of", ["str"], "position"),
                "LineLocation": ("mk_line_location", ["str", "Z", "position"], "loc"),
                "FunctionLocation": ("mk_func_location", ["str", "option str", "position"], "loc"),
                "build_snapshot_action": ("gen_build_snapshot_action", ["str", "args", "list str"], "option gaction"),
                "build_log_action": ("gen_build_log_action", ["str", "args"], "option gaction"),
                "build_metric_action": ("gen_build_metric_action", ["str", "args", "metrics"], "option gaction"),
                "build_span_action": ("gen_build_span_action", ["str", "args"], "option gaction"),
                "Trigger": ("mk_trigger", ["loc", "list gaction"], "gtrigger")}),
    # ---- the trace hooks (C14)
    dict(group="Hooks", name="gen_handler_start", path="processor/trigger_handler.py", cls="TriggerHandler", func="start",
         params="(no_trace : bool) (inert hooks_installed : bool) (saved_sys saved_thr sys_hook thr_hook : nat)",
         ret="bool * bool * nat * nat * nat * nat", args=["self"], falls_off=True,
         env={"self._config.NO_TRACE": ("no_trace", "bool"), "self.trace_call": ("AGENT", "nat"), "threading": ("tt", "unit")},
         calls={"sys.gettrace": ("id {hook.sys}", [], "nat"), "threading.gettrace": ("id {hook.thr}", [], "nat"),
                }, has_attrs=[["threading", "gettrace"]],
         state={"self.__inert": ("inert", "bool"), "self.__hooks_installed": ("hooks_installed", "bool"),
                "self.__old_sys_trace": ("saved_sys", "nat"), "self.__old_thread_trace": ("saved_thr", "nat"),
                "hook.sys": ("sys_hook", "nat"), "hook.thr": ("thr_hook", "nat")},
         state_names={"self.__inert": "inert", "self.__hooks_installed": "hooks_installed", "self.__old_sys_trace": "saved_sys",
                      "self.__old_thread_trace": "saved_thr", "hook.sys": "sys_hook", "hook.thr": "thr_hook"},
         stmt_calls={"sys.settrace": dict(fn="set_hook", args=["nat"], updates=["hook.sys"]),
                     "threading.settrace": dict(fn="set_hook", args=["nat"], updates=["hook.thr"])}),
    dict(group="Hooks", name="gen_handler_shutdown", path="processor/trigger_handler.py", cls="TriggerHandler", func="shutdown",
         params="(inert hooks_installed : bool) (saved_sys saved_thr sys_hook thr_hook : nat)",
         ret="bool * bool * nat * nat * nat * nat", args=["self"], falls_off=True, env={},
         state={"self.__inert": ("inert", "bool"), "self.__hooks_installed": ("hooks_installed", "bool"),
                "self.__old_sys_trace": ("saved_sys", "nat"), "self.__old_thread_trace": ("saved_thr", "nat"),
                "hook.sys": ("sys_hook", "nat"), "hook.thr": ("thr_hook", "nat")},
         state_names={"self.__inert": "inert", "self.__hooks_installed": "hooks_installed", "self.__old_sys_trace": "saved_sys",
                      "self.__old_thread_trace": "saved_thr", "hook.sys": "sys_hook", "hook.thr": "thr_hook"},
         stmt_calls={"sys.settrace": dict(fn="set_hook", args=["nat"], updates=["hook.sys"]),
                     "threading.settrace": dict(fn="set_hook", args=["nat"], updates=["hook.thr"])}),
    # ---- metric actions (C17)
    dict(group="Metrics", name="gen_has_metric_processor", path="processor/context/metric_action.py", cls="MetricActionContext", func="__has_metric_processor",
         params="(has_processor : bool)", ret="bool", args=["self"], env={"self.trigger_context.config.has_metric_processor": ("has_processor", "bool")}),
    dict(group="Metrics", name="gen_metric_can_trigger", path="processor/context/metric_action.py", cls="MetricActionContext", func="can_trigger",
         params="(has_processor : bool) (action_gate : bool)", ret="bool", args=["self"],
         calls={"self.__has_metric_processor": ("gen_has_metric_processor has_processor", [], "bool"),
                "super().can_trigger": ("action_gate", [], "bool")}),
    dict(group="Metrics", name="gen_convert_type", path="processor/context/metric_action.py", cls="MetricActionContext", func="_convert_type",
         params="(metric_type : str)", ret="str", args=["self", "metric_type"], env={"metric_type": ("metric_type", "str")}),
    # ---- span actions (C20: plugins are optional)
    dict(group="Spans", name="gen_span_can_trigger", path="processor/context/span_action.py", cls="SpanActionContext", func="can_trigger",
         params="(has_processor : bool) (action_gate : bool)", ret="bool", args=["self"],
         env={"self.trigger_context.config.has_span_processor": ("has_processor", "bool")},
         calls={"super().can_trigger": ("action_gate", [], "bool")}),
    # ---- pending callbacks (C15)
    dict(group="Callbacks", name="gen_cb_next_line", path="processor/context/callback_context.py", cls="CallbackContext", func="__check_at_next_line",
         params="(c_event c_file c_func event file function_name : str)", ret="bool", args=["self", "event", "file", "function_name"], env={"event": ("event", "str"), "file": ("file", "str"), "function_name": ("function_name", "str"), "line": ("line", "Z"), "frame": ("tt", "unit"), "self.__event": ("c_event", "str"), "self.__filename": ("c_file", "str"), "self.__function_name": ("c_func", "str")}),
    dict(group="Callbacks", name="gen_cb_method_end", path="processor/context/callback_context.py", cls="CallbackContext", func="__check_at_method_end",
         params="(event : str)", ret="bool", args=["self", "event"], env={"event": ("event", "str")}),
    dict(group="Callbacks", name="gen_cb_at_location", path="processor/context/callback_context.py", cls="CallbackContext", func="at_location",
         params="(c_event c_file c_func event file : str) (line : Z) (function_name : str)", ret="bool",
         args=["self", "event", "file", "line", "function_name", "frame"], env={"event": ("event", "str"), "file": ("file", "str"), "function_name": ("function_name", "str"), "line": ("line", "Z"), "frame": ("tt", "unit"), "self.__event": ("c_event", "str"), "self.__filename": ("c_file", "str"), "self.__function_name": ("c_func", "str")},
         calls={"self.__check_at_next_line": ("gen_cb_next_line c_event c_file c_func", ["str", "str", "str"], "bool"),
                "self.__check_at_method_end": ("gen_cb_method_end", ["str"], "bool")}),
    dict(group="Callbacks", name="gen_cb_body", path="processor/trigger_handler.py", cls="TriggerHandler", func="__process_call_backs",
         params="(c_event c_file c_func event file : str) (line : Z) (function_name : str) (line_context_done : bool)", ret="verdict",
         args=["self", "ctx", "arg", "frame", "event", "file", "line", "function_name"],
         env={"event": ("event", "str"), "file": ("file", "str"), "function_name": ("function_name", "str"), "line": ("line", "Z"),
              "frame": ("tt", "unit"), "context.event": ("c_event", "str")},
         calls={"context.at_location": ("(fun e_ f_ l_ n_ (_ : unit) => gen_cb_at_location c_event c_file c_func e_ f_ l_ n_)", ["str", "str", "Z", "str", "unit"], "bool")},
         noop_calls=["context.process", "self._callbacks.clear"],
         loop=dict(stack="stack", stack_source="self._callbacks.value", top="context",
                   flags={"line_context_done": ("line_context_done", "bool")}, flags_init={"line_context_done": False})),
    # ---- the tracepoint configuration service (C12)
    dict(group="Service", name="gen_update_no_change", path="config/tracepoint_config.py", cls="TracepointConfigService", func="update_no_change",
         params="(last_update ts : Z)", ret="Z", args=["self", "ts"], falls_off=True, env={"ts": ("ts", "Z")},
         state={"self._last_update": ("last_update", "Z")}, state_names={"self._last_update": "last_update"}),
    dict(group="Service", name="gen_trigger_update", path="config/tracepoint_config.py", cls="TracepointConfigService", func="__trigger_update",
         params="(polled : cfg) (hash : option nat) (last_update : Z) (pending : list task) (old_hash : option nat) (old_config : option cfg)",
         ret="list task", args=["self", "old_hash", "old_config"], falls_off=True,
         env={"old_hash": ("old_hash", "option nat"), "old_config": ("old_config", "option cfg"),
              "self._last_update": ("last_update", "Z"), "self._current_hash": ("hash", "option nat"),
              "self._tracepoint_config": ("polled", "cfg"), "self._task_handler": ("tt", "handler"),
              "self.update_listeners": ("tt", "unit")},
         state={"pending": ("pending", "list task")}, state_names={"pending": "pending"},
         stmt_calls={"self._task_handler.submit_task": dict(fn="submit_task {pending}", updates=["pending"],
                                                           args=["unit", "Z", "option nat", "option nat", "option cfg", "cfg"])},
         noop_calls=["future.add_done_callback"]),
    dict(group="Service", name="gen_update_new_config", path="config/tracepoint_config.py", cls="TracepointConfigService", func="update_new_config",
         params="(polled : cfg) (hash : option nat) (last_update : Z) (pending : list task) (ts : Z) (new_hash : nat) (new_config : cfg)",
         ret="cfg * option nat * Z * list task", args=["self", "ts", "new_hash", "new_config"], falls_off=True,
         env={"ts": ("ts", "Z"), "new_hash": ("new_hash", "nat"), "new_config": ("new_config", "cfg")},
         state={"self._tracepoint_config": ("polled", "cfg"), "self._current_hash": ("hash", "option nat"),
                "self._last_update": ("last_update", "Z"), "pending": ("pending", "list task")},
         state_names={"self._tracepoint_config": "polled", "self._current_hash": "hash", "self._last_update": "last_update", "pending": "pending"},
         stmt_calls={"self.__trigger_update": dict(fn="gen_trigger_update {self._tracepoint_config} {self._current_hash} {self._last_update} {pending}",
                                                   updates=["pending"], args=["option nat", "option cfg"])}),
    dict(group="Service", name="gen_update_listeners", path="config/tracepoint_config.py", cls="TracepointConfigService", func="update_listeners",
         params="(polled : cfg) (hash : option nat) (custom : cfg) (installed : cfg) (ts : Z) (old_hash current_hash : option nat) (old_config : option cfg) (new_config : cfg)",
         ret="cfg", args=["self", "ts", "old_hash", "current_hash", "old_config", "new_config"], falls_off=True, locks=["self._update_lock"],
         env={"ts": ("ts", "Z"), "old_hash": ("old_hash", "option nat"), "current_hash": ("current_hash", "option nat"),
              "old_config": ("old_config", "option cfg"), "new_config": ("new_config", "cfg"),
              "self._current_hash": ("hash", "option nat"), "self._tracepoint_config": ("polled", "cfg"),
              "self._custom": ("custom", "cfg"), "self._listeners": ("tt", "listeners")},
         calls={"self._listeners.copy": ("tt", [], "listeners")},
         state={"installed": ("installed", "cfg")}, state_names={"installed": "installed"},
         listener_loops={"listeners_copy": dict(method="config_change", fn="deliver {installed}", updates="installed",
                                                args=["Z", "option nat", "option nat", "option cfg", "cfg"])}),
    dict(group="Registry", name="gen_add_custom", path="config/tracepoint_config.py", cls="TracepointConfigService", func="add_custom",
         params="(polled : cfg) (hash : option nat) (last_update : Z) (custom_ids custom : list nat) (pending : list task) (fresh_handle : nat) (built : option nat)",
         ret="(list nat * list nat * list task) * option nat", args=["self", "path", "line", "args", "watches", "metrics"],
         env={"path": ("tt", "unit"), "line": ("tt", "unit"), "args": ("tt", "unit"), "watches": ("tt", "unit"), "metrics": ("tt", "unit")},
         calls={"uuid.uuid4": ("fresh_handle", [], "nat"),
                "build_trigger": ("interp_built built", ["nat", "unit", "unit", "unit", "unit", "unit"], "option nat")},
         state={"self._custom_ids": ("custom_ids", "list nat"), "self._custom": ("custom", "list nat"), "pending": ("pending", "list task")},
         state_names={"self._custom_ids": "custom_ids", "self._custom": "custom", "pending": "pending"},
         on_return=dict(value="Some %s", none="None", raises={"ValueError": "None"}),
         stmt_calls={"self.__trigger_update": dict(fn="gen_trigger_update polled hash last_update {pending}",
                                                   updates=["pending"], args=["option nat", "option cfg"])}),
    dict(group="Registry", name="gen_remove_custom", path="config/tracepoint_config.py", cls="TracepointConfigService", func="remove_custom",
         params="(polled : cfg) (hash : option nat) (last_update : Z) (custom_ids custom : list nat) (pending : list task) (_id : nat)",
         ret="list nat * list nat * list task", args=["self", "_id"], falls_off=True, env={"_id": ("_id", "nat")},
         state={"self._custom_ids": ("custom_ids", "list nat"), "self._custom": ("custom", "list nat"), "pending": ("pending", "list task")},
         state_names={"self._custom_ids": "custom_ids", "self._custom": "custom", "pending": "pending"},
         stmt_calls={"self.__trigger_update": dict(fn="gen_trigger_update polled hash last_update {pending}",
                                                   updates=["pending"], args=["option nat", "option cfg"])}),
    dict(group="Service", name="gen_handler_new_config", path="processor/trigger_handler.py", cls="TriggerHandler", func="new_config",
         params="(installed new_config : cfg)", ret="cfg", args=["self", "new_config"], falls_off=True,
         env={"new_config": ("new_config", "cfg")},
         state={"self._tp_config": ("installed", "cfg")}, state_names={"self._tp_config": "installed"}),
    dict(group="Service", name="gen_listener_config_change", path="processor/trigger_handler.py", cls="TracepointHandlerUpdateListener", func="config_change",
         params="(installed : cfg) (ts : Z) (old_hash current_hash : option nat) (old_config : option cfg) (new_config : cfg)", ret="cfg",
         args=["self", "ts", "old_hash", "current_hash", "old_config", "new_config"], falls_off=True,
         env={"new_config": ("new_config", "cfg")},
         state={"installed": ("installed", "cfg")}, state_names={"installed": "installed"},
         stmt_calls={"self._handler.new_config": dict(fn="gen_handler_new_config {installed}", updates=["installed"], args=["cfg"])}),
    # ---- one poll: what is sent, and what the answer does to the service's state (C12)
    dict(group="Poll", name="gen_poll", path="poll/poll.py", cls="LongPoll", func="poll",
         params="(polled : cfg) (hash : option nat) (last_update : Z) (pending : list task) (now : Z) (no_change : Z) "
                "(answer : option nat -> (Z * Z) * (nat * cfg))",
         ret="cfg * option nat * Z * list task", args=["self"], falls_off=True,
         env={"self.grpc.channel": ("tt", "unit"), "self.config.resource": ("tt", "unit"),
              "self.config.tracepoints.current_hash": ("{svc.hash}", "option nat"),
              "ResponseType.NO_CHANGE": ("no_change", "Z"),
              "response.response_type": ("(fst (fst {response}))", "Z"), "response.ts_nanos": ("(snd (fst {response}))", "Z"),
              "response.current_hash": ("(fst (snd {response}))", "nat"), "response.response": ("(snd (snd {response}))", "cfg")},
         calls={"PollConfigStub": ("(fun _ : unit => tt)", ["unit"], "unit"), "time_ns": ("now", [], "Z"),
                "convert_resource": ("(fun _ : unit => tt)", ["unit"], "unit"), "self.grpc.metadata": ("tt", [], "unit"),
                "convert_response": ("(fun c : cfg => c)", ["cfg"], "cfg")},
         kwcalls={"PollRequest": ("(fun (_ : Z) (h : option nat) (_ : unit) => h)", ["ts_nanos", "current_hash", "resource"],
                                  ["Z", "option nat", "unit"], "option nat"),
                  "stub.poll": ("(fun (r : option nat) (_ : unit) => answer r)", ["request", "metadata"], ["option nat", "unit"],
                                "((Z * Z) * (nat * cfg))")},
         state={"svc.polled": ("polled", "cfg"), "svc.hash": ("hash", "option nat"), "svc.last_update": ("last_update", "Z"),
                "pending": ("pending", "list task")},
         state_names={"svc.polled": "polled", "svc.hash": "hash", "svc.last_update": "last_update", "pending": "pending"},
         stmt_calls={"self.config.tracepoints.update_no_change": dict(fn="gen_update_no_change {svc.last_update}", args=["Z"],
                                                                      updates=["svc.last_update"]),
                     "self.config.tracepoints.update_new_config": dict(
                         fn="gen_update_new_config {svc.polled} {svc.hash} {svc.last_update} {pending}", args=["Z", "nat", "cfg"],
                         updates=["svc.polled", "svc.hash", "svc.last_update", "pending"])},
         noop_calls=["logging.debug"]),
    # ---- the traversal: the work-list loop and what it does with one node (C05)
    dict(group="Collect", name="gen_bfs_iter", path="processor/bfs/__init__.py", cls=None, func="breadth_first_search",
         params="{N S : Type} (consumer : N -> list N -> S -> (list N * S) * bool) (children_of : N -> list N) (queue : list N) (s : S)",
         ret="wl_result N S", args=["node", "consumer"],
         worklist=dict(queue="queue", start="node", consumer="consumer", children_attr="children")),
    dict(group="Collect", name="gen_search_function", path="processor/variable_set_processor.py", cls="VariableSetProcessor", func="search_function",
         params="{N V R S : Type} (budget_ok : S -> bool) (value_of : N -> option V) (depth_of : N -> nat) "
                "(process : V -> S -> (R * bool) * S) (attach_to_parent : N -> R -> S -> S) (child_nodes : R -> V -> nat -> list N) "
                "(add_children : list N -> nat -> list N -> list N) (node : N) (children : list N) (s : S)",
         ret="(list N * S) * bool", args=["self", "node"],
         env={"self": ("tt", "unit"), "node": ("node", "N"), "node.value": ("(value_of node)", "option V"), "node.depth": ("(depth_of node)", "nat"),
              "process_result.variable_id": ("(fst {process_result})", "R"), "process_result.process_children": ("(snd {process_result})", "bool"),
              "var_id.vid": ("{var_id}", "R"), "node_value.value": ("{node_value}", "V")},
         state={"node.children": ("children", "list N"), "<collector>": ("s", "S")},
         state_names={"node.children": "children", "<collector>": "s"},
         calls={"self.check_var_count": ("budget_ok {<collector>}", [], "bool"),
                "process_child_nodes": ("(fun _ : unit => child_nodes)", ["unit", "R", "V", "nat"], "list N")},
         eff_calls={"process_variable": dict(fn="(fun (_ : unit) v_ => process v_ {<collector>})", args=["unit", "V"], ret="(R * bool)", updates=["<collector>"])},
         stmt_calls={"node.parent.add_child": dict(fn="(fun r_ => attach_to_parent node r_ {<collector>})", updates=["<collector>"], args=["R"]),
                     "node.add_children": dict(fn="add_children {node.children} (depth_of node)", updates=["node.children"], args=["list N"])}),
    # ---- Node.add_children: every new child is one level below its parent, kept in order after the children already there (C05)
    dict(group="Collect", name="gen_add_children", path="processor/bfs/__init__.py", cls="Node", func="add_children",
         params="{N : Type} (set_depth : N -> Z -> N) (depth : Z) (existing : list N) (children : list N)", ret="list N",
         args=["self", "children"], falls_off=True, state_loops=True, setters={"_depth": ("set_depth", "Z")},
         env={"children": ("children", "list N"), "self._depth": ("depth", "Z")},
         state={"self._children": ("existing", "list N")}, state_names={"self._children": "existing"}),
    # ---- one variable: identity first, then a new id and a table entry (C07; the consumer's callee in the traversal, C05)
    dict(group="Collect", name="gen_process_variable", path="processor/variable_processor.py", cls=None, func="process_variable",
         params="{V O T M R X C TB : Type} (name_of : V -> str) (orig_of : V -> option str) (obj_of : V -> O) (identity_of : O -> nat) "
                "(type_of : O -> T) (type_name : T -> str) (text_of : T -> O -> str) (mods_of : str -> M) (check_id : C -> nat -> option nat) "
                "(new_var_id : C -> nat -> nat * C) (mk_ref : nat -> str -> M -> option str -> R) (mk_variable : str -> str -> nat -> bool -> X) "
                "(append_variable : TB -> nat -> X -> TB) (max_string_length : Z) (cache : C) (table : TB) (node : V)",
         ret="(C * TB) * (R * bool)", args=["var_collector", "node"],
         env={"node.value": ("(obj_of node)", "O"), "node.name": ("(name_of node)", "str"), "node.original_name": ("(orig_of node)", "option str"),
              "var_collector.max_string_length": ("max_string_length", "Z"), "variable_type.__name__": ("(type_name {variable_type})", "str")},
         state={"<cache>": ("cache", "C"), "<table>": ("table", "TB")}, state_names={"<cache>": "cache", "<table>": "table"},
         calls={"id": ("identity_of", ["O"], "nat"), "var_modifiers": ("mods_of", ["str"], "M"),
                "var_collector.check_id": ("check_id {<cache>}", ["nat"], "option nat"),
                "VariableId": ("mk_ref", ["nat", "str", "M", "option str"], "R"),
                "type": ("type_of", ["O"], "T"), "variable_to_string": ("text_of", ["T", "O"], "str"),
                "truncate_string": ("gen_truncate_string", ["str", "Z"], "(str * bool)"),
                "Variable": ("(fun ty_ val_ id_ (_ : list str) tr_ => mk_variable ty_ val_ id_ tr_)", ["str", "str", "nat", "list str", "bool"], "X")},
         kwcalls={"VariableResponse": ("pair", ["variable_id", "process_children"], ["R", "bool"], "(R * bool)")},
         eff_calls={"var_collector.new_var_id": dict(fn="new_var_id {<cache>}", args=["nat"], ret="nat", updates=["<cache>"])},
         stmt_calls={"var_collector.append_variable": dict(fn="append_variable {<table>}", updates=["<table>"], args=["nat", "X"])}),
    # ---- one root (a frame's locals, a watch value): known objects answer at once, otherwise one traversal (C07, C05)
    dict(group="Collect", name="gen_collect_root", path="processor/variable_set_processor.py", cls="VariableSetProcessor", func="process_variable",
         params="{O C TB N W R : Type} (identity_of : O -> nat) (check_id : C -> nat -> option nat) (mk_initial : str -> O -> N) "
                "(mk_start : list N -> W) (traverse : W -> C * TB -> C * TB) (mk_id : option nat -> str -> R) (to_string : O -> str) "
                "(cache : C) (table : TB) (name : str) (value : O)",
         ret="(C * TB) * (R * str)", args=["self", "name", "value"],
         env={"name": ("name", "str"), "value": ("value", "O"), "self.search_function": ("tt", "unit")},
         state={"<cache>": ("cache", "C"), "<table>": ("table", "TB")}, state_names={"<cache>": "cache", "<table>": "table"},
         empty_lists={"var_ids": "list unit"},
         local_classes={"FrameParent": "its add_child appends the reference to the list the caller reads (Collector.roots, tied by correspondence)"},
         calls={"id": ("identity_of", ["O"], "nat"), "self.__var_cache.check_id": ("check_id {<cache>}", ["nat"], "option nat"),
                "VariableId": ("mk_id", ["option nat", "str"], "R"), "self.__to_string": ("to_string", ["O"], "str"),
                "FrameParent": ("tt", [], "unit"), "NodeValue": ("pair", ["str", "O"], "(str * O)"),
                "Node": ("(fun (_ : option (str * O)) l_ (_ : unit) => mk_start l_)", ["option (str * O)", "list N", "unit"], "W")},
         kwcalls={"Node": ("(fun (nv_ : str * O) (_ : unit) => mk_initial (fst nv_) (snd nv_))", ["value", "parent"], ["(str * O)", "unit"], "N")},
         stmt_calls={"breadth_first_search": dict(fn="(fun w_ (_ : unit) => traverse w_ ({<cache>}, {<table>}))", updates=["<cache>", "<table>"],
                                                  args=["W", "unit"])}),
    # ---- child discovery: the depth gate, the collection-size cap, private-name correction (C05, C06)
    dict(group="Children", name="gen_correct_names", path="processor/variable_processor.py", cls=None, func="correct_names",
         params="(name val : str)", ret="str", args=["name", "val"], env={"name": ("name", "str"), "val": ("val", "str")}),
    dict(group="Children", name="gen_process_list", path="processor/variable_processor.py", cls=None, func="process_list_breadth_first",
         params="{N V P : Type} (mk_node : str -> V -> P -> N) (max_collection_size : Z) (parent_node : P) (value : list V)", ret="list N",
         args=["var_collector", "parent_node", "value"],
         env={"var_collector.max_collection_size": ("max_collection_size", "Z"), "parent_node": ("parent_node", "P"), "value": ("value", "list V")},
         empty_lists={"nodes": "list N"}, local_lists=["nodes"],
         kwcalls={"Node": ("(fun nv_ p_ => mk_node (fst nv_) (snd nv_) p_)", ["value", "parent"], ["(str * V)", "P"], "N")},
         calls={"NodeValue": ("pair", ["str", "V"], "(str * V)")}),
    dict(group="Children", name="gen_process_child_nodes", path="processor/variable_processor.py", cls=None, func="process_child_nodes",
         params="{N V T : Type} (type_of : V -> T) (type_name : T -> str) (find_children : V -> T -> list N) (max_var_depth : Z) "
                "(var_value : V) (frame_depth : Z)", ret="list N",
         args=["var_collector", "variable_id", "var_value", "frame_depth"], constants=["processor/variable_processor.py"],
         env={"var_value": ("var_value", "V"), "frame_depth": ("frame_depth", "Z"), "var_collector.max_var_depth": ("max_var_depth", "Z"),
              "variable_type.__name__": ("(type_name {variable_type})", "str"), "var_collector": ("tt", "unit")},
         calls={"type": ("type_of", ["V"], "T"), "VariableParent": ("tt", [], "unit"),
                "find_children_for_parent": ("(fun (_ _ : unit) => find_children)", ["unit", "unit", "V", "T"], "list N")},
         local_classes={"VariableParent": "its add_child appends the child to the entry of variable_id (Collector.attach, tied by correspondence)"}),
    # ---- the line a tracepoint reports on the wire (an unsigned field): a method tracepoint holds -1 (C08)
    dict(group="Line", name="gen_line_no", path="api/tracepoint/tracepoint_config.py", cls="TracePointConfig", func="line_no",
         params="(line_no : Z)", ret="Z", args=["self"], env={"self._line_no": ("line_no", "Z")}),
    # ---- Resource.merge: the other's attributes over a copy of one's own, and the schema rule (C18)
    dict(group="Merge", name="gen_resource_merge", path="api/resource/__init__.py", cls="Resource", func="merge",
         params="{A R : Type} (attrs_update : A -> A -> A) (mk : A -> str -> R) (self_attrs other_attrs : A) (self_schema other_schema : str) (self_ : R)",
         ret="R", args=["self", "other"], noop_calls=["logging.error"],
         env={"self.schema_url": ("self_schema", "str"), "other.schema_url": ("other_schema", "str"), "self": ("self_", "R")},
         opaque_exprs={"self.attributes.copy()": ("self_attrs", "A"), "other.attributes": ("other_attrs", "A")},
         calls={"Resource": ("mk", ["A", "str"], "R")},
         local_updates={"merged_attributes.update": ("merged_attributes", "attrs_update", "A")}),
    # ---- the bounded attribute store (C18)
    dict(group="Store", name="gen_setitem", path="api/attributes/__init__.py", cls="BoundedAttributes", func="__setitem__",
         params="(cap vlimit : option Z) (immutable : bool) (items : list (str * cval)) (dropped : Z) (key : str) (value : val)",
         ret="(list (str * cval) * Z) * outcome", args=["self", "key", "value"], falls_off=True, locks=["self._lock"],
         outcomes={"TypeError": "RTypeError", "KeyError": "RKeyError"},
         env={"key": ("key", "str"), "value": ("value", "val"), "self._immutable": ("immutable", "bool"),
              "self.max_length": ("cap", "option Z"), "self.max_value_len": ("vlimit", "option Z")},
         state={"self._dict": ("items", "list (str * cval)"), "self.dropped": ("dropped", "Z")},
         state_names={"self._dict": "items", "self.dropped": "dropped"},
         odicts={"self._dict": "self._dict"}, odict_value="cval",
         calls={"_clean_attribute": ("clean_attribute", ["str", "val", "option Z"], "option cval")}),
    dict(group="Store", name="gen_delitem", path="api/attributes/__init__.py", cls="BoundedAttributes", func="__delitem__",
         params="(immutable : bool) (items : list (str * cval)) (key : str)",
         ret="list (str * cval) * outcome", args=["self", "key"], falls_off=True, locks=["self._lock"],
         outcomes={"TypeError": "RTypeError", "KeyError": "RKeyError"},
         env={"key": ("key", "str"), "self._immutable": ("immutable", "bool")},
         state={"self._dict": ("items", "list (str * cval)")}, state_names={"self._dict": "items"},
         odicts={"self._dict": "self._dict"}, odict_value="cval"),
    # ---- application frames and short paths (C19, C02)
    dict(group="Frames", name="gen_is_app_frame", path="config/config_service.py", cls="ConfigService", func="is_app_frame",
         params="(excl incl : list str) (exec_prefix root filename : str)", ret="bool * option str", value_type="(bool * option str)",
         args=["self", "filename"], local_lists=["in_app_exclude"],
         env={"filename": ("filename", "str"), "sys.exec_prefix": ("exec_prefix", "str"), "self.APP_ROOT": ("root", "str"),
              "self.IN_APP_INCLUDE": ("INCL", "setting"), "self.IN_APP_EXCLUDE": ("EXCL", "setting")},
         calls={"self.__as_path_list": ("as_path_list", ["setting"], "list str")},
         rewrite={"(as_path_list INCL)": "incl", "(as_path_list EXCL)": "excl"}),
    dict(group="Frames", name="gen_parse_short_name", path="processor/frame_collector.py", cls="FrameCollector", func="parse_short_name",
         params="(is_app : str -> bool * option str) (filename : str)", ret="str * bool", args=["self", "filename"],
         env={"filename": ("filename", "str")},
         calls={"self.__source.is_app_frame": ("is_app", ["str"], "(bool * option str)")}),
    # ---- one trace event through the handler: matching, then every matching action's own gate / limits / processing (C03)
    dict(group="Event", name="gen_location_from_event", path="processor/trigger_handler.py", cls="TriggerHandler", func="location_from_event",
         params="{F : Type} (co_filename : F -> str) (f_lineno : F -> Z) (co_name : F -> str) (event : str) (frame : F)",
         ret="str * str * Z * str", args=["event", "frame"],
         env={"event": ("event", "str"), "frame.f_code.co_filename": ("(co_filename frame)", "str"), "frame.f_lineno": ("(f_lineno frame)", "Z"),
              "frame.f_code.co_name": ("(co_name frame)", "str")},
         calls={"os.path.basename": ("basename", ["str"], "str")}),
    dict(group="Event", name="gen_trace_call", path="processor/trigger_handler.py", cls="TriggerHandler", func="_trace_call",
         params="{S A CB PC F T : Type} (inert : bool) (location_from_event : str -> F -> str * str * Z * str) (callbacks_set : S -> bool) "
                "(process_call_backs : str -> str -> Z -> str -> S -> S) (tp_config : list T) "
                "(actions_for : str -> str -> Z -> str -> list A) (can_trigger : A -> S -> bool) (acquire : A -> S -> bool * S) "
                "(process : A -> S -> S) (callbacks_of : S -> list CB) (mk_pending : str -> str -> Z -> str -> list CB -> PC) "
                "(push_pending : PC -> S -> S) (s : S) (frame : F) (event : str)",
         ret="S * bool", args=["self", "frame", "event", "arg"],
         on_return={"none": "false", "value": "(fun _ : unit => true) %s"},
         isolating_try=True, state_loops=True, transparent_withs=["trigger_context"], binding_withs=["trigger_context.action_context"],
         env={"self.__inert": ("inert", "bool"), "frame": ("frame", "F"), "event": ("event", "str"), "arg": ("tt", "unit"),
              "self._config": ("tt", "unit"), "self._push_service": ("tt", "unit"), "self.trace_call": ("tt", "unit"),
              "self._callbacks.is_set": ("(callbacks_set {<s>})", "bool"), "self._tp_config": ("tp_config", "list T"),
              "trigger_context.callbacks": ("(callbacks_of {<s>})", "list CB")},
         state={"<s>": ("s", "S")}, state_names={"<s>": "s"},
         calls={"self.location_from_event": ("location_from_event", ["str", "F"], "(str * str * Z * str)"),
                "TriggerContext": ("(fun (_ _ : unit) (_ : F) (_ : str) (_ : unit) => tt)", ["unit", "unit", "F", "str", "unit"], "unit"),
                "self.__actions_for_location": ("(fun e_ fi_ li_ fu_ (_ : F) => actions_for e_ fi_ li_ fu_)", ["str", "str", "Z", "str", "F"], "list A"),
                "trigger_context.action_context": ("(fun a_ : A => a_)", ["A"], "A"),
                "ctx.can_trigger": ("can_trigger {ctx} {<s>}", [], "bool"),
                "CallbackContext": ("mk_pending", ["str", "str", "Z", "str", "list CB"], "PC")},
         eff_calls={"ctx.acquire": dict(fn="acquire {ctx} {<s>}", args=[], ret="bool", updates=["<s>"])},
         stmt_calls={"self.__process_call_backs": dict(fn="(fun (_ _ : unit) (_ : F) e_ fi_ li_ fu_ => process_call_backs e_ fi_ li_ fu_ {<s>})",
                                                       updates=["<s>"], args=["unit", "unit", "F", "str", "str", "Z", "str"]),
                     "ctx.process": dict(fn="process {ctx} {<s>}", updates=["<s>"], args=[]),
                     "self._callbacks.get().append": dict(fn="(fun pc_ => push_pending pc_ {<s>})", updates=["<s>"], args=["PC"])}),
    # ---- which frames of the stack carry variables (C02)
    dict(group="Select", name="gen_should_collect_vars", path="processor/context/snapshot_action.py", cls="SnapshotActionContext", func="should_collect_vars",
         params="(config : args) (current_frame_index : Z)", ret="bool", args=["self", "current_frame_index"],
         constants=["api/tracepoint/constants.py"],
         env={"self.location_action.config": ("config", "args"), "current_frame_index": ("current_frame_index", "Z")}),
    # ---- how a setting resolves (C19): the service object's own attributes, the code-supplied map, deep.config, the DEEP_ variable
    dict(group="Resolve", name="gen_getattribute", path="config/config_service.py", cls="ConfigService", func="__getattribute__",
         params="(own_get custom_get dflt_get : str -> option cv) (has_default : str -> bool) (env_get : str -> option str) (name : str)",
         ret="option cv", value_type="option cv", args=["self", "name"], allow_imports=True, noop_calls=["logging.warning"],
         env={"name": ("name", "str")},
         raising_calls={"super().__getattribute__": dict(fn="own_get", args=["str"], ret="cv", raises="AttributeError", wrap=True,
                                                         bind_type="option cv")},
         opaque_exprs={"self.__custom is not None and name in self.__custom": ("(match custom_get name with Some _ => true | None => false end)", "bool"),
                       "self.__custom[name]": ("(custom_get name)", "option cv"),
                       "os.getenv('DEEP_%s' % name, None)": ("(env_get name)", "option str"),
                       "hasattr(config, name)": ("(has_default name)", "bool"),
                       "getattr(config, name, None)": ("(dflt_get name)", "option cv"),
                       "callable(attr)": ("(is_callable_opt (as_opt_cv {attr}))", "bool"),
                       "attr()": ("(call_opt (as_opt_cv {attr}))", "option cv")}),
    # ---- truth words (C10 condition gate, C19 boolean settings)
    dict(group="Truth", name="gen_str2bool", path="utils.py", cls=None, func="str2bool",
         params="(string : str)", ret="bool", args=["string"], env={"string": ("string", "str")}),
    # ---- the gate of an action (C10): limits first, then the condition
    dict(group="Gate", name="gen_action_can_trigger", path="processor/context/action_context.py", cls="ActionContext", func="can_trigger",
         params="(limits : Z -> bool) (cond : option str) (ts : Z) (ev : str -> eres)", ret="bool", args=["self"],
         env={"self.location_action.condition": ("cond", "option str"), "self.trigger_context.ts": ("ts", "Z")},
         calls={"self.location_action.can_trigger": ("limits", ["Z"], "bool"),
                "self.trigger_context.evaluate_expression": ("ev", ["str"], "eres"),
                "str2bool": ("gen_str2bool", ["str"], "bool")}),
]

GROUPS = {           # generated file -> (imports, which properties' theorems are stated over it)
    "Limits": ("From Deep Require Import Base Limiter PureSupport.", ["C04"]),
    "Match": ("From Deep Require Import Base Match PureSupport.", ["C03"]),
    "Collect": ("From Deep Require Import Base PureSupport.", ["C05", "C07"]),
    "Children": ("From Deep Require Import Base PureSupport.", ["C05", "C02"]),
    "Render": ("From Deep Require Import Base PureSupport.", ["C02"]),
    "Event": ("From Deep Require Import Base Match PureSupport.", ["C03"]),
    "Select": ("From Deep Require Import Base TriggerTable PureSupport.", ["C02"]),
    "Truth": ("From Deep Require Import Base Config PureSupport.", ["C10", "C19"]),
    "Resolve": ("From Deep Require Import Base Config PureSupport.", ["C19"]),
    "Gate": ("From Deep Require Import Base Config Limiter Cond PureSupport.\nFrom DeepGen Require Import PTruth.", ["C10"]),
    "Table": ("From Deep Require Import Base Match TriggerTable PureSupport.", ["C11"]),
    "Frames": ("From Deep Require Import Base PureSupport.", ["C19", "C02"]),
    "Store": ("From Deep Require Import Base Attrs PureSupport.", ["C18"]),
    "Merge": ("From Deep Require Import Base PureSupport.", ["C18"]),
    "Line": ("From Deep Require Import Base PureSupport.", ["C08"]),
    "Service": ("From Deep Require Import Base ConfigSvc PureSupport.", ["C12", "C13"]),
    "Registry": ("From Deep Require Import Base ConfigSvc PureSupport.\nFrom DeepGen Require Import PService.", ["C13"]),
    "Poll": ("From Deep Require Import Base ConfigSvc PureSupport.\nFrom DeepGen Require Import PService.", ["C12"]),
    "Callbacks": ("From Deep Require Import Base PureSupport.", ["C15"]),
    "Metrics": ("From Deep Require Import Base Config PureSupport.", ["C17"]),
    "Spans": ("From Deep Require Import Base PureSupport.", ["C20"]),
    "Hooks": ("From Deep Require Import Base Lifecycle PureSupport.", ["C14"]),
}
HEADER = '''(* GENERATED by harness/translate/pure.py from /repo/src/deep - do not edit.
   Each definition is the statement-by-statement translation of one pure function of the agent. *)
%s
Local Open Scope Z_scope.
Local Open Scope bool_scope.

'''


def translate_pop_loop(spec, fdef):
    """A loop of the shape
           <stack> = <declared>; <flag> = <constant> ...
           while len(<stack>) > 0:
               <top> = <stack>[-1]
               ... if C: [logging]; break ... <stack>.pop() ... <declared no-op calls> ... <flag> = <constant> ...
           [if len(<stack>) == 0: <declared no-op calls>]
       is translated as its BODY: a function of the top entry and the flags to a verdict
       (VStop | VPopStop | VPopContinue flags'); PureSupport.pop_loop is the loop over it."""
    lp = spec["loop"]
    fn = Fn(spec)
    body = [b for b in fdef.body if not (isinstance(b, ast.Expr) and isinstance(b.value, ast.Constant))]
    whiles = [i for i, b in enumerate(body) if isinstance(b, ast.While)]
    if len(whiles) != 1:
        raise Unsupported("expected exactly one while loop")
    w = body[whiles[0]]
    init = {}
    for b in body[:whiles[0]]:
        if isinstance(b, ast.Assign) and len(b.targets) == 1 and isinstance(b.targets[0], ast.Name):
            n = b.targets[0].id
            if n == lp["stack"] and dotted(b.value) == lp["stack_source"]:
                continue
            if n in lp["flags"] and isinstance(b.value, ast.Constant) and isinstance(b.value.value, bool):
                init[n] = b.value.value
                continue
        raise Unsupported("statement before the loop")
    if init != lp["flags_init"]:
        raise Unsupported("initial flags %r" % (init,))
    for b in body[whiles[0] + 1:]:
        ok = isinstance(b, ast.If) and not b.orelse and isinstance(b.test, ast.Compare) and len(b.test.ops) == 1 \
            and isinstance(b.test.ops[0], ast.Eq) and isinstance(b.test.left, ast.Call) and dotted(b.test.left.func) == "len" \
            and dotted(b.test.left.args[0]) == lp["stack"] and isinstance(b.test.comparators[0], ast.Constant) and b.test.comparators[0].value == 0 \
            and all(isinstance(x, ast.Expr) and isinstance(x.value, ast.Call) and ((dotted(x.value.func) or "").startswith("logging.")
                                                                                     or dotted(x.value.func) in spec.get("noop_calls", [])) for x in b.body)
        if not ok:
            raise Unsupported("statement after the loop")
    t = w.test
    if not (isinstance(t, ast.Compare) and len(t.ops) == 1 and isinstance(t.ops[0], ast.Gt) and isinstance(t.left, ast.Call)
            and dotted(t.left.func) == "len" and dotted(t.left.args[0]) == lp["stack"]
            and isinstance(t.comparators[0], ast.Constant) and t.comparators[0].value == 0) or w.orelse:
        raise Unsupported("loop test")
    first = w.body[0]
    tgt = first.target if isinstance(first, ast.AnnAssign) else (first.targets[0] if isinstance(first, ast.Assign) and len(first.targets) == 1 else None)
    val = first.value if isinstance(first, (ast.AnnAssign, ast.Assign)) else None
    if not (isinstance(tgt, ast.Name) and tgt.id == lp["top"] and isinstance(val, ast.Subscript) and dotted(val.value) == lp["stack"]
            and isinstance(val.slice, ast.UnaryOp) and isinstance(val.slice.op, ast.USub) and isinstance(val.slice.operand, ast.Constant)
            and val.slice.operand.value == 1):
        raise Unsupported("the loop does not start by reading the top entry")
    for n, (term, ty) in lp["flags"].items():
        fn.env[n] = (term, ty)

    def flags_term():
        parts = [fn.env[n][0] for n in lp["flags"]]
        return parts[0] if len(parts) == 1 else "(" + ", ".join(parts) + ")"

    def go(stmts, popped):
        if not stmts:
            if not popped:
                raise Unsupported("an iteration may end without popping and without break (the loop would not advance)")
            return "(VPopContinue %s)" % flags_term()
        st, rest = stmts[0], stmts[1:]
        if isinstance(st, ast.Break):
            return "VPopStop" if popped else "VStop"
        if isinstance(st, ast.Expr) and isinstance(st.value, ast.Call):
            pat = dotted(st.value.func)
            if pat == lp["stack"] + ".pop" and not st.value.args and not st.value.keywords:
                if popped:
                    raise Unsupported("two pops in one iteration")
                return go(rest, True)
            if (pat or "").startswith("logging.") or pat in spec.get("noop_calls", []):
                if pat in spec.get("noop_calls", []) and not popped:
                    raise Unsupported("%s before the entry is popped" % pat)
                return go(rest, popped)
            raise Unsupported("call %s in the loop" % pat)
        if isinstance(st, ast.Assign) and len(st.targets) == 1 and isinstance(st.targets[0], ast.Name) and st.targets[0].id in lp["flags"] \
                and isinstance(st.value, ast.Constant) and isinstance(st.value.value, bool):
            saved = dict(fn.env)
            fn.env[st.targets[0].id] = ("true" if st.value.value else "false", "bool")
            out = go(rest, popped)
            fn.env = saved
            return out
        if isinstance(st, ast.If):
            c, tc = fn.expr(st.test)
            a = go(list(st.body) + list(rest), popped)
            b = go(list(st.orelse) + list(rest), popped)
            return "(if %s then %s else %s)" % (fn.truth(c, tc), a, b)
        raise Unsupported("statement %s in the loop" % type(st).__name__)
    return go(list(w.body[1:]), False), fn


def translate_worklist(spec, fdef):
    """A work-list loop of the shape
           <queue> = [<start>]
           while len(<queue>) != 0:
               <x> = <queue>.pop(0)            (or .pop(): the other end)
               <c> = <consumer>(<x>)           (the consumer may add to <x>.children and changes the collector's state)
               if <c>: <queue> += <x>.children   else: return
       is translated as ONE ITERATION: a function of the list and the state to WEnd state | WGo list' state'
       (PureSupport.wl_run is the loop over it), plus the initial list as a function of the start node."""
    wl = spec["worklist"]
    q, consumer = wl["queue"], wl["consumer"]
    body = [b for b in fdef.body if not (isinstance(b, ast.Expr) and isinstance(b.value, ast.Constant))]
    if len(body) != 2 or not isinstance(body[1], ast.While) or body[1].orelse:
        raise Unsupported("expected `%s = [...]` followed by one while loop and nothing else" % q)
    a = body[0]
    if not (isinstance(a, ast.Assign) and len(a.targets) == 1 and dotted(a.targets[0]) == q and isinstance(a.value, ast.List)
            and all(dotted(e) == wl["start"] for e in a.value.elts)):
        raise Unsupported("the list is not initialised as a list of the start node")
    start = "[" + "; ".join("node" for _ in a.value.elts) + "]"
    w = body[1]
    t = w.test

    def len_of_queue(n):
        return isinstance(n, ast.Call) and dotted(n.func) == "len" and len(n.args) == 1 and dotted(n.args[0]) == q and not n.keywords
    if isinstance(t, ast.Compare) and len(t.ops) == 1 and len_of_queue(t.left) and isinstance(t.comparators[0], ast.Constant) \
            and t.comparators[0].value == 0 and isinstance(t.ops[0], (ast.NotEq, ast.Gt)):
        test = "(negb (Nat.eqb (length queue) 0))"
    elif isinstance(t, ast.Compare) and len(t.ops) == 1 and len_of_queue(t.left) and isinstance(t.comparators[0], ast.Constant) \
            and type(t.comparators[0].value) is int and isinstance(t.ops[0], (ast.Gt, ast.GtE, ast.NotEq)):
        op = {ast.Gt: "Nat.ltb %d (length queue)", ast.GtE: "Nat.leb %d (length queue)", ast.NotEq: "negb (Nat.eqb (length queue) %d)"}[type(t.ops[0])]
        test = "(" + op % t.comparators[0].value + ")"
    elif dotted(t) == q:
        test = "(negb (Nat.eqb (length queue) 0))"
    else:
        raise Unsupported("loop test")
    fresh = [0]

    def new(base):
        fresh[0] += 1
        return "%s%d" % (base, fresh[0])

    def children_term(node, env):
        pat = dotted(node)
        if pat and pat.endswith("." + wl["children_attr"]) and pat[:-len(wl["children_attr"]) - 1] in env["nodes"]:
            return env["nodes"][pat[:-len(wl["children_attr"]) - 1]][1]
        return None

    def go(stmts, env):
        if not stmts:
            return "(WGo %s %s)" % (env["q"], env["s"])
        st, rest = stmts[0], stmts[1:]
        if isinstance(st, ast.Expr) and isinstance(st.value, ast.Constant):
            return go(rest, env)
        if isinstance(st, ast.Expr) and isinstance(st.value, ast.Call) and (dotted(st.value.func) or "").startswith("logging."):
            return go(rest, env)
        if isinstance(st, (ast.Return, ast.Break)):
            if isinstance(st, ast.Return) and st.value is not None and not (isinstance(st.value, ast.Constant) and st.value.value is None):
                raise Unsupported("the loop returns a value")
            return "(WEnd %s)" % env["s"]
        if isinstance(st, ast.Continue):
            return "(WGo %s %s)" % (env["q"], env["s"])
        if isinstance(st, ast.Assign) and len(st.targets) == 1 and isinstance(st.targets[0], ast.Name) and isinstance(st.value, ast.Call):
            name, call = st.targets[0].id, st.value
            pat = dotted(call.func)
            if pat == q + ".pop" and not call.keywords and len(call.args) <= 1:
                if not call.args or (isinstance(call.args[0], ast.UnaryOp) and isinstance(call.args[0].op, ast.USub)
                                     and isinstance(call.args[0].operand, ast.Constant) and call.args[0].operand.value == 1):
                    popper = "py_pop_last"
                elif isinstance(call.args[0], ast.Constant) and call.args[0].value == 0 and type(call.args[0].value) is int:
                    popper = "py_pop_first"
                else:
                    raise Unsupported("pop at another index")
                x, q1 = new(name + "_"), new("queue_")
                env2 = dict(env, q=q1, nodes=dict(env["nodes"]))
                env2["nodes"][name] = (x, "(children_of %s)" % x)
                return "(match %s %s with None => (WEnd %s) | Some (%s, %s) => %s end)" % (popper, env["q"], env["s"], x, q1, go(rest, env2))
            if pat == consumer and len(call.args) == 1 and not call.keywords and dotted(call.args[0]) in env["nodes"]:
                target = dotted(call.args[0])
                x, ch_before = env["nodes"][target]
                ch, s1, c1 = new("children_"), new("s_"), new(name + "_")
                env2 = dict(env, s=s1, nodes=dict(env["nodes"]), bools=dict(env["bools"]))
                env2["nodes"][target] = (x, ch)
                env2["bools"][name] = c1
                return "(let '((%s, %s), %s) := consumer %s %s %s in %s)" % (ch, s1, c1, x, ch_before, env["s"], go(rest, env2))
            raise Unsupported("call %s in the loop" % pat)
        if isinstance(st, ast.If):
            tt = st.test
            neg = False
            if isinstance(tt, ast.UnaryOp) and isinstance(tt.op, ast.Not):
                neg, tt = True, tt.operand
            if not (isinstance(tt, ast.Name) and tt.id in env["bools"]):
                raise Unsupported("loop condition on something else than the consumer's answer")
            a_ = go(list(st.body) + list(rest), env)
            b_ = go(list(st.orelse) + list(rest), env)
            if neg:
                a_, b_ = b_, a_
            return "(if %s then %s else %s)" % (env["bools"][tt.id], a_, b_)
        new_q = None
        if isinstance(st, ast.AugAssign) and isinstance(st.op, ast.Add) and dotted(st.target) == q:
            ch = children_term(st.value, env)
            if ch is not None:
                new_q = "(%s ++ %s)" % (env["q"], ch)
        if isinstance(st, ast.Expr) and isinstance(st.value, ast.Call) and dotted(st.value.func) == q + ".extend" and len(st.value.args) == 1:
            ch = children_term(st.value.args[0], env)
            if ch is not None:
                new_q = "(%s ++ %s)" % (env["q"], ch)
        if isinstance(st, ast.Assign) and len(st.targets) == 1 and dotted(st.targets[0]) == q and isinstance(st.value, ast.BinOp) \
                and isinstance(st.value.op, ast.Add):
            l_, r_ = st.value.left, st.value.right
            if dotted(l_) == q and children_term(r_, env) is not None:
                new_q = "(%s ++ %s)" % (env["q"], children_term(r_, env))
            elif dotted(r_) == q and children_term(l_, env) is not None:
                new_q = "(%s ++ %s)" % (children_term(l_, env), env["q"])
        if new_q is not None:
            q1 = new("queue_")
            return "(let %s := %s in %s)" % (q1, new_q, go(rest, dict(env, q=q1)))
        raise Unsupported("statement %s in the loop" % type(st).__name__)
    it = go(list(w.body), dict(q="queue", s="s", nodes={}, bools={}))
    fn = Fn(spec)
    fn.notes.append("the consumer is handed the node, the children the node already has and the collector's state; it answers "
                    "(the node's children afterwards, the state afterwards, whether to go on)")
    extra = "Definition %s_start {N : Type} (node : N) : list N := %s.\n\n" % (spec["name"], start)
    return "(if %s then %s else (WEnd s))" % (test, it), fn, extra


def translate(spec):
    fdef = find(spec["path"], spec["cls"], spec["func"])
    got_args = [a.arg for a in fdef.args.args]
    if got_args != spec["args"] or fdef.args.vararg or fdef.args.kwarg or fdef.args.kwonlyargs:
        raise Unsupported("parameters of %s are %s, expected %s" % (spec["func"], got_args, spec["args"]))
    extra = ""
    if "loop" in spec:
        body, fn = translate_pop_loop(spec, fdef)
    elif "worklist" in spec:
        body, fn, extra = translate_worklist(spec, fdef)
    else:
        fn = Fn(spec)
        body = fn.block(list(fdef.body))
    for a, b in spec.get("rewrite", {}).items():      # declared opaque sub-terms (not translated: see the tie lemma's statement)
        body = body.replace(a, b)
    text = "(* %s: %s%s, line %d *)\n" % (spec["path"], (spec["cls"] + "." if spec["cls"] else ""), spec["func"], fdef.lineno)
    for n in sorted(set(fn.notes)):
        text += "(* note: %s *)\n" % n
    text += "Definition %s %s : %s :=\n  %s.\n\n" % (spec["name"], spec["params"], spec["ret"], body)
    text += extra
    declared = {k: v[1] for k, v in spec.get("env", {}).items()}
    declared.update({k: v[1] for k, v in spec.get("state", {}).items()})
    declared.update({k + "()": "%s -> %s" % (", ".join(v[1]) or "()", v[2]) for k, v in spec.get("calls", {}).items()})
    declared.update({k + "()": "effect on " + ", ".join(v["updates"]) for k, v in spec.get("stmt_calls", {}).items()})
    return text, dict(function="%s:%s%s" % (spec["path"], (spec["cls"] + "." if spec["cls"] else ""), spec["func"]), line=fdef.lineno,
                      notes=sorted(set(fn.notes)), declared=declared)


def generate():
    """{group: (text of coq/gen/P<group>.v, info)}"""
    out = {}
    for g, (imports, _props) in GROUPS.items():
        text, info = HEADER % imports, {}
        for spec in SPECS:
            if spec["group"] != g:
                continue
            try:
                t, inf = translate(spec)
                text += t
                info[spec["name"]] = inf
            except (Unsupported, OSError, SyntaxError) as ex:
                # fail closed: the definition is left out, so every tie lemma that names it stops compiling
                text += "(* %s: NOT TRANSLATED: %s *)\n\n" % (spec["name"], str(ex).replace("*)", "* )"))
                info[spec["name"]] = dict(error=str(ex))
        out[g] = (text, info)
    return out


if __name__ == "__main__":
    import json
    for g, (t, i) in generate().items():
        print("(* ===== gen/P%s.v ===== *)" % g)
        print(t)
        print(json.dumps(i, indent=1))
